#!/bin/bash
# applies every seeded change in turn, runs the quick check of its property, records the alarms in seeded/<id>/detected.txt
cd /verif
if [ -n "$(git -C /repo status --porcelain)" ]; then echo "REFUSE: /repo has uncommitted changes"; exit 2; fi
for d in ${SEEDED_ONLY:-seeded/C??-[0-9]*}; do
  id=$(basename $d); P=${id%-*}
  git -C /repo apply /verif/$d/patch.diff || { echo "$id: patch does not apply"; continue; }
  GOVC_EVIDENCE_DIR=/tmp/govc-mutant-evidence ./check $P quick 2>&1 | grep -E "^VIOLATION|quick:" > $d/detected.txt
  git -C /repo checkout -- . ; git -C /repo clean -fdq
  echo "$id: $(grep -c ^VIOLATION $d/detected.txt) alarms"
done
