#!/usr/bin/env python3
# usage: agent_prompt.py <property id> <number of changes> [hint] > /tmp/p-<id>.txt  (prompt for a seeding agent; the agent is given only this text)
import sys
pid=sys.argv[1]; n=sys.argv[2]; hint=sys.argv[3] if len(sys.argv)>3 else ""
import json
prop=""
for l in open("/verif/properties.jsonl"):
    p=json.loads(l)
    if p["id"]==pid:
        prop="%s — %s\n\n%s\n\nQuantification: %s\n"%(p["id"],p["title"],p["statement"],p["quantifier"]["text"])
print(f"""You are helping test a verification setup for the Go library gcash/bchutil (Bitcoin Cash utility library). Work ONLY inside the git worktree at /tmp/wt-{pid} (a checkout of the library). Do not look at or touch /repo or /verif. Some files named *_verif.go appear as deleted in `git status` of the worktree — ignore that, do not restore them, and do not include them in any patch.

Environment: no network. For every go command use: `export GOFLAGS=-mod=mod GOPROXY=off GOSUMDB=off GOTOOLCHAIN=local`. The existing test suite is run with `go test -vet=off -count=1 ./...` from the worktree root. Do not run `go doc` or anything that needs the network.

The property under test:
{prop}
{hint}

Your task: produce {n} different, realistic code changes (bugs a developer could plausibly introduce, e.g. during an optimisation, clean-up or refactor) to the NON-test source of the library such that each change:
 1. still compiles, and the ENTIRE existing test suite still passes unchanged (`go test -vet=off -count=1 ./...`);
 2. breaks the property above;
 3. needs something specific to manifest — an unusual input, a boundary value, a particular multi-step sequence of operations, a particular state, or two cooperating sites that each look fine alone — NOT something ordinary use or the existing tests expose at once. Make the changes different in kind and in different functions where possible.
For each change also write a demonstration: a small Go test file (in the package directory of the changed code, named zz_demo1_test.go, zz_demo2_test.go, ...) with a test that FAILS with your change applied and PASSES on the original code.

Deliverables, written to /tmp/wt-{pid}/out/ (create the directory; also put an empty-module go.mod there containing `module out` so that `go test ./...` at the root ignores it):
 - change1.diff, change2.diff, ... : `git diff` output for ONLY the library source files you changed for that mutant (each must apply cleanly to a clean checkout with `git apply`; produce each from a clean state, i.e. revert the previous change before making the next);
 - demo1_test.go, demo2_test.go, ... : the demonstration tests (copies), and say in notes.md which directory each belongs in;
 - notes.md : for each change: what it breaks, what is needed to manifest it, and the exact commands you ran showing (a) full suite passes with the change, (b) demo fails with the change, (c) demo passes without it.
Leave the worktree's source files in their ORIGINAL state when you finish (changes only as .diff files in out/; no demo test files left in package directories). Verify all three facts (a)(b)(c) yourself by actually running the commands before reporting. Report briefly what you produced.""")
