#!/bin/bash
# usage: refactor_report_par.sh [workers]  — applies every behaviour-preserving patch under /verif/refactors on a scratch
# worktree, runs the checks whose functions live in the touched packages (on a /tmp snapshot of /verif), and writes the
# alarms (there should be none for a tolerated edit) to /verif/refactors/<id>/result.txt
N=${1:-2}
S=/tmp/rr-verif; rm -rf $S; mkdir -p $S
cp -r /verif/bin /verif/spec /verif/props /verif/known_findings.txt $S/
cd /verif; ls -d refactors/R?-? > $S/list.txt
for i in $(seq 1 $N); do
  git -C /repo worktree remove --force /tmp/rr-repo-$i 2>/dev/null
  git -C /repo worktree add -q --detach /tmp/rr-repo-$i HEAD || exit 2
done
export GOFLAGS=-mod=mod GOPROXY=off GOSUMDB=off GOTOOLCHAIN=local
worker() {
  i=$1; R=/tmp/rr-repo-$i
  awk -v n=$N -v i=$i 'NR%n==i%n' $S/list.txt | while read d; do
    id=$(basename $d)
    files=$(grep '^+++ b/' /verif/$d/patch.diff | sed 's|+++ b/||')
    pkgs=""
    for f in $files; do dir=$(dirname $f); case $dir in .) pkgs="$pkgs bchutil";; *) pkgs="$pkgs $(basename $dir)";; esac; done
    props=""
    for P in $(ls $S/props | sed 's/.json//'); do for pk in $pkgs; do if grep -q "\"$pk\.\|\"$pk(" $S/props/$P.json; then props="$props $P"; break; fi; done; done
    git -C $R apply /verif/$d/patch.diff || { echo "$id: patch does not apply" | tee /verif/$d/result.txt; continue; }
    : > /verif/$d/result.txt
    for P in $props; do
      (cd $S && GOVC_EVIDENCE_DIR=/tmp/govc-refactor-evidence-$i bin/govc check -repo $R -verif $S $P quick 2>&1 | grep -E "^VIOLATION|quick:" | grep -v " 0 violations" | cut -c1-230 >> /verif/$d/result.txt)
    done
    git -C $R checkout -- . ; git -C $R clean -fdq
    echo "$id: $(grep -c ^VIOLATION /verif/$d/result.txt) alarms (checked:$props)"
  done
}
for i in $(seq 1 $N); do worker $i & done
wait
for i in $(seq 1 $N); do git -C /repo worktree remove --force /tmp/rr-repo-$i; rm -rf /tmp/govc-refactor-evidence-$i; done
rm -rf $S
echo "refactor report done"
