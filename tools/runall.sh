#!/bin/bash
# run every registered quick check on the current tree; prints one line per property plus alarms
cd /verif
ids=$(python3 -c "
import json; print(' '.join(c['property_id'] for c in json.load(open('MANIFEST.json'))['checks']))" 2>/dev/null)
[ -z "$ids" ] && ids=$(ls props | sed 's/.json//')
for P in $ids; do ./check $P ${1:-quick} 2>&1 | grep -E "^VIOLATION|^KNOWN|quick:|thorough:" | cut -c1-200; done
