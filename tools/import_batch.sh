#!/bin/bash
# usage: import_batch.sh <property> <first new number>   (copies /tmp/wt-<P>/out/change*.diff + demos into seeded/, appends renumbered notes)
P=$1; start=$2; n=$(ls /tmp/wt-$P/out/change*.diff | wc -l)
for i in $(seq 1 $n); do k=$((start+i-1)); mkdir -p /verif/seeded/$P-$k; cp /tmp/wt-$P/out/change$i.diff /verif/seeded/$P-$k/patch.diff; cp /tmp/wt-$P/out/demo${i}_test.go /verif/seeded/$P-$k/demo${k}_test.go; done
python3 - "$P" "$start" <<'PY'
import sys,re,os
P,start=sys.argv[1],int(sys.argv[2])
n=open(f'/tmp/wt-{P}/out/notes.md').read()
def rn(m): return m.group(1)+str(int(m.group(2))+start-1)
n=re.sub(r'(?m)^(#+\s*`?\*{0,2}[Cc]hange\s*)(\d+)',rn,n)
p=f'/verif/seeded/{P}-notes.md'
if os.path.exists(p) and start>1:
    open(p,'a').write(f'\n\n# later batch (numbers from {start})\n\n'+n)
else:
    open(p,'w').write(n)
PY
ls -d /verif/seeded/$P-* | tr '\n' ' '; echo
