#!/bin/bash
# usage: tryrefactor.sh <refactor dir name>   (applies a behaviour-preserving patch, runs the checks whose functions live in the touched packages, restores)
d=/verif/refactors/$1
if [ -n "$(git -C /repo status --porcelain)" ]; then echo "REFUSE: /repo has uncommitted changes"; exit 2; fi
files=$(grep '^+++ b/' $d/patch.diff | sed 's|+++ b/||')
pkgs=""
for f in $files; do dir=$(dirname $f); case $dir in .) pkgs="$pkgs bchutil";; *) pkgs="$pkgs $(basename $dir)";; esac; done
props=""
for P in $(ls /verif/props | sed 's/.json//'); do for pk in $pkgs; do if grep -q "\"$pk\.\|\"$pk(" /verif/props/$P.json; then props="$props $P"; break; fi; done; done
git -C /repo apply $d/patch.diff || { echo "patch does not apply"; exit 2; }
for P in $props; do (cd /verif && GOVC_EVIDENCE_DIR=/tmp/govc-mutant-evidence ./check $P quick 2>&1 | grep -E "^VIOLATION|quick:" | grep -v "0 violations" | cut -c1-230); done
git -C /repo checkout -- . ; git -C /repo clean -fdq
echo "[$1] checked:$props"
