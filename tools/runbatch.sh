#!/bin/bash
# usage: runbatch.sh <seeded id> <demo package dir> <property>   (confirm + run the check against one seeded change)
echo "== $1 ($2)"; /verif/tools/confirm.sh $1 $2 2>&1 | grep -E "^clean|^patched" | tr '\n' ' '; echo; /verif/tools/trymutant.sh $1 $3 | grep -v KNOWN | cut -c1-190 | head -3
