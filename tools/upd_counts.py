#!/usr/bin/env python3
# rewrites the "obl." column of the per-property table in docs_asbuilt.md from evidence/<id>.json
import json,re
p='/verif/docs_asbuilt.md'; s=open(p).read()
def cnt(P):
    try: return str(json.load(open(f'/verif/evidence/{P}.json'))['coverage']['obligations'])
    except Exception: return None
def rep(m):
    c=cnt(m.group(1)) or m.group(2)
    return f"| {m.group(1)} | {c}{m.group(3) or ''} |"
s=re.sub(r'\| (C\d\d) \| (\d+)(?:None)?( \(\+2\))? \|',rep,s)
open(p,'w').write(s)
