#!/usr/bin/env python3
"""Regenerates /verif/MANIFEST.json from tools/manifest_texts.json (per-property level text and notes)
and the hook commits found in /repo's history."""
import json, subprocess
T = json.load(open('/verif/tools/manifest_texts.json'))
commits = subprocess.run(['git','-C','/repo','log','--grep','^verif hook','--format=%h','--reverse'],capture_output=True,text=True).stdout.split()
checks=[]
for pid in sorted(T['checks']):
    t=T['checks'][pid]
    checks.append({"property_id":pid,"quick_cmd":f"./check {pid} quick","thorough_cmd":f"./check {pid} thorough",
      "evidence_file":f"/verif/evidence/{pid}.json","engine":"govc",
      "level_claimed":{"category":"proof","text":t['text'],"design_ref":f"DESIGN.md section 7 {pid}"},
      "level_note":t['note'],
      "technique":"contract-based deductive verification: VCs generated from go/ssa of the real code + contracts kept as //@ comments in build-tagged files of /repo, discharged by z3 4.8.12 / z3 5.1.0 / cvc5 1.0.3"})
m={"version":1,
 "setup_cmd":"cd /verif/govc && GOFLAGS=-mod=mod GOPROXY=off GOSUMDB=off GOTOOLCHAIN=local go build -o /verif/bin/govc .",
 "hooks":{"guard":"verif","enable":"go build -tags verif ./... (govc loads the packages with -tags=verif; the hook files contain only //@ contract comments and ghost lemma functions)",
          "baseline_off_cmd":"cd /repo && go test -vet=off -count=1 ./...","source_commits":commits,"add_only":True},
 "engines":[{"name":"govc","path":"/verif/govc","serves_properties":sorted(T['checks']),"kind_free_text":"own VC generator over go/ssa (x/tools v0.29.0) with a contract language in //@ comments; solver portfolio z3/z3-new/cvc5"}],
 "checks":checks,"notes":T['notes'],"not_applicable":T['not_applicable']}
json.dump(m,open('/verif/MANIFEST.json','w'),indent=1)
print(len(checks),'checks;',len(commits),'hook commits')
