#!/bin/bash
# usage: seeded_report_par.sh [workers]   — like seeded_report.sh, but on scratch worktrees of /repo HEAD and a
# snapshot of /verif (bin, spec, props, known findings) under /tmp, so that /repo and /verif stay free meanwhile.
# Records the alarms in /verif/seeded/<id>/detected.txt. SEEDED_ONLY="seeded/C01-1 ..." restricts the set.
N=${1:-3}
S=/tmp/sr-verif; rm -rf $S; mkdir -p $S
cp -r /verif/bin /verif/spec /verif/props /verif/known_findings.txt $S/
cd /verif; ls -d ${SEEDED_ONLY:-seeded/C??-[0-9]*} > $S/list.txt
for i in $(seq 1 $N); do
  git -C /repo worktree remove --force /tmp/sr-repo-$i 2>/dev/null
  git -C /repo worktree add -q --detach /tmp/sr-repo-$i HEAD || exit 2
done
export GOFLAGS=-mod=mod GOPROXY=off GOSUMDB=off GOTOOLCHAIN=local
worker() {
  i=$1; R=/tmp/sr-repo-$i
  awk -v n=$N -v i=$i 'NR%n==i%n' $S/list.txt | while read d; do
    id=$(basename $d); P=${id%-*}
    git -C $R apply /verif/$d/patch.diff || { echo "$id: patch does not apply"; continue; }
    (cd $S && GOVC_EVIDENCE_DIR=/tmp/govc-mutant-evidence-$i bin/govc check -repo $R -verif $S $P quick 2>&1 | grep -E "^VIOLATION|quick:" > /verif/$d/detected.txt)
    git -C $R checkout -- . ; git -C $R clean -fdq
    echo "$id: $(grep -c ^VIOLATION /verif/$d/detected.txt) alarms"
  done
}
for i in $(seq 1 $N); do worker $i & done
wait
for i in $(seq 1 $N); do git -C /repo worktree remove --force /tmp/sr-repo-$i; rm -rf /tmp/govc-mutant-evidence-$i; done
rm -rf $S
echo "seeded report done"
