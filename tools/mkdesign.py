#!/usr/bin/env python3
"""Splices docs_asbuilt.md (section 11, with the seeded-change table generated from seeded/*/meta.json)
into DESIGN.md between the markers <!-- ASBUILT:BEGIN --> and <!-- ASBUILT:END -->."""
import json, glob, os, re
rows=["| id | change | needs, in short | first obligation that reports it |","|---|---|---|---|"]
for d in sorted(glob.glob('/verif/seeded/C??-[0-9]*')):
    m=json.load(open(d+'/meta.json'))
    ch=re.sub(r'^[Cc]hange\s*\d+(\.diff)?\s*[-—–:]+\s*','',m['change']).replace('|','/')
    needs=re.sub(r'^\W*(what is )?needed to manifest( it)?:?\*?\s*','',m['needs_to_manifest'],flags=re.I).replace('|','/')
    if len(needs)>150: needs=needs[:147]+'…'
    v=m['check_run']['violations']
    ob='**missed**'
    if v:
        mo=re.search(r'obligation=(\S+)',v[0]); ob='`'+mo.group(1)+'`' if mo else v[0]
        if len(v)>1: ob+=f' (+{len(v)-1})'
    rows.append(f"| {m['id']} | {ch[:110]} | {needs} | {ob} |")
body=open('/verif/docs_asbuilt.md').read().replace('SEEDED_TABLE','\n'.join(rows))
D=open('/verif/DESIGN.md').read()
B,E='<!-- ASBUILT:BEGIN -->','<!-- ASBUILT:END -->'
block=B+'\n'+body.rstrip()+'\n'+E
if B in D:
    D=D[:D.index(B)]+block+D[D.index(E)+len(E):]
else:
    # insert before the appendices
    i=D.index('## Appendix A')
    D=D[:i]+block+'\n\n--------------------------------------------------------------------------------\n\n'+D[i:]
open('/verif/DESIGN.md','w').write(D)
print('DESIGN.md updated:',len(rows)-2,'seeded rows')
