#!/bin/bash
# usage: confirm.sh <seeded-dir> <pkgdir-for-demo (relative, . for root)>
# In a scratch worktree: demo passes on clean tree, suite passes with patch, demo fails with patch.
set -u
export GOFLAGS=-mod=mod GOPROXY=off GOSUMDB=off GOTOOLCHAIN=local
d=/verif/seeded/$1; pkg=$2; wt=/tmp/confirm-$$
git -C /repo worktree add -q --detach $wt HEAD || exit 2
cd $wt
demo=$(ls $d/demo*_test.go | head -1)
cp $demo $pkg/zz_demo_test.go
go test -vet=off -count=1 ./$pkg -run 'Demo|Seed|Mutant|Zz|Test' >/tmp/confirm-clean.$$ 2>&1 && echo "clean+demo: PASS" || { echo "clean+demo: FAIL"; tail -5 /tmp/confirm-clean.$$; }
rm $pkg/zz_demo_test.go
git apply $d/patch.diff || echo "APPLY FAILED"
go test -vet=off -count=1 ./... >/tmp/confirm-suite.$$ 2>&1 && echo "patched suite: PASS" || { echo "patched suite: FAIL"; grep -v "^ok\|no test files" /tmp/confirm-suite.$$ | tail -8; }
cp $demo $pkg/zz_demo_test.go
go test -vet=off -count=1 ./$pkg >/tmp/confirm-mut.$$ 2>&1 && echo "patched+demo: PASS (BAD)" || { echo "patched+demo: FAIL (as expected)"; grep -E "^\s+.*_test.go|--- FAIL" /tmp/confirm-mut.$$ | head -4; }
cd /; git -C /repo worktree remove --force $wt; rm -f /tmp/confirm-*.$$
