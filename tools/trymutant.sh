#!/bin/bash
# usage: trymutant.sh <seeded-dir> <property> [quick|thorough]
# Applies seeded/<dir>/patch.diff to /repo (which must be clean), runs the check, restores /repo.
set -u
d=/verif/seeded/$1; P=$2; tier=${3:-quick}
if [ -n "$(git -C /repo status --porcelain)" ]; then echo "REFUSE: /repo has uncommitted changes"; exit 2; fi
git -C /repo apply "$d/patch.diff" || { echo "patch does not apply"; exit 2; }
(cd /verif && GOVC_EVIDENCE_DIR=/tmp/govc-mutant-evidence ./check "$P" "$tier" 2>&1 | grep -E "^VIOLATION|^KNOWN|^OK|obligations|FAILED|UNKNOWN|contract.attach" | head -12)
rc=${PIPESTATUS[0]}
git -C /repo checkout -- . ; git -C /repo clean -fdq
