#!/usr/bin/env python3
"""Writes seeded/<id>/meta.json for every seeded change from the agent's notes plus what was run here.
detected.txt (written by tools/seeded_report.sh) supplies the obligations that reported it."""
import json, os, re, glob
root='/verif/seeded'
demo_pkg={'C01-1':'base58','C05-3':'base58','C06-3':'base58','C07-3':'base58'}
pkg_by_prop={'C03':'.','C04':'hdkeychain','C05':'hdkeychain','C06':'.','C07':'bech32','C08':None,'C09':'bloom','C10':'bloom','C11':None,'C12':'merkleblock','C15':'hdkeychain','C16':'.','C18':'txsort','C20':None,'C01':'.','C02':'.','C13':'gcs','C14':'gcs','C17':'.','C19':'coinset'}
special={'C07-14':'base58','C03-9':'.','C03-10':'bech32','C02-10':'base58','C07-12':'base58','C11-9':'merkleblock','C11-10':'merkleblock','C11-11':'bloom','C03-6':'.','C03-7':'bech32','C03-8':'bech32','C20-6':'bloom','C20-7':'bloom','C20-8':'gcs','C08-7':'gcs','C08-8':'base58','C08-9':'bloom','C02-9':'base58','C06-9':'base58','C07-8':'base58','C11-6':'merkleblock','C11-7':'.','C11-8':'merkleblock','C07-4':'base58','C07-5':'bech32','C07-6':'bech32','C08-4':'.','C08-5':'merkleblock','C08-6':'bloom','C11-3':'merkleblock','C11-4':'bloom','C11-5':'merkleblock','C14-3':'gcs/builder','C03-3':'.','C03-4':'bech32','C03-5':'.','C20-3':'bloom','C20-4':'bloom','C20-5':'gcs','C08-1':'bloom','C08-2':'merkleblock','C08-3':'gcs','C11-1':'bloom','C11-2':'merkleblock','C20-1':'bloom','C20-2':'gcs','C03-1':'.','C03-2':'bech32','C07-1':'bech32','C07-2':'bech32'}
for d in sorted(glob.glob(root+'/C??-[0-9]*')):
    sid=os.path.basename(d); prop,idx=sid.split('-')
    notes=open(f'{root}/{prop}-notes.md').read() if os.path.exists(f'{root}/{prop}-notes.md') else ''
    secs=re.split(r'\n(?=## )', notes)
    sec=''
    for s in secs:
        h=s.split('\n',1)[0].lower()
        if re.search(r'change\s*%s\b|change%s\b'%(idx,idx), h): sec=s; break
    title=sec.split('\n',1)[0].lstrip('# ').strip() if sec else ''
    m=re.search(r'(?is)(what is needed to manifest[^\n]*|needed to manifest[^\n]*|needs?:)(.*?)(\n\s*\n|\Z)', sec)
    needs=(m.group(1)+m.group(2)).strip() if m else ''
    needs=re.sub(r'\s+',' ',needs)
    pkg=special.get(sid) or demo_pkg.get(sid) or pkg_by_prop.get(prop) or '.'
    det=[]
    if os.path.exists(d+'/detected.txt'):
        det=[l.strip() for l in open(d+'/detected.txt') if l.startswith('VIOLATION')]
    demo=[os.path.basename(x) for x in glob.glob(d+'/demo*_test.go')]
    meta={'id':sid,'breaks_property':prop,'change':title,'needs_to_manifest':needs,
      'files':{'patch':'patch.diff','demonstration':demo,'demonstration_goes_in_package_dir':pkg},
      'confirmed_here':{'how':f'tools/confirm.sh {sid} {pkg}: scratch worktree of /repo HEAD; (1) demonstration passes on the unchanged tree, (2) go test -vet=off -count=1 ./... passes with the patch applied, (3) the demonstration fails with the patch applied','result':'all three as required'},
      'check_run':{'how':f'tools/trymutant.sh {sid} {prop}: git -C /repo apply patch.diff; ./check {prop} quick; git -C /repo checkout -- .','detected':bool(det),'violations':[re.sub(r' replay=\S+','',l) for l in det][:6]}}
    if os.path.exists(d+'/note.txt'):
        meta['note']=open(d+'/note.txt').read().strip()
    json.dump(meta,open(d+'/meta.json','w'),indent=1)
    print(sid, 'detected' if det else 'NOT-RUN/MISSED', '|', title[:70])
