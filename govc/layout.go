// layout.go: Go types -> flattened cells, symbolic values, heap state.
package main

import (
	"fmt"
	"go/types"
	"math/big"
	"sort"
	"strings"
)

// MaxLen is the stated memory assumption A-mem: no slice/string is longer than 2^48.
var MaxLen = new(big.Int).Lsh(big.NewInt(1), 48)

type VK int

const (
	VScalar VK = iota // bool, ints, floats: one term S
	VPtr              // Ref, Off
	VSlice            // Ref, Off, Len, Cap
	VString           // Ref, Off, Len
	VIface            // S = type tag, Ref = boxed payload ref
	VTuple            // struct / array / tuple: El
	VMap              // S = map ref
	VFunc             // S = opaque id
)

type Val struct {
	K                  VK
	T                  types.Type
	S                  *Term
	Ref, Off, Len, Cap *Term
	El                 []*Val
	Fn                 *closureInfo // for VFunc values known statically
	Unique             bool         // slice backed by an array nothing else references
	Kinds              []string     // VPtr into a tagged struct field: heap kinds of the pointee's cells
}

type closureInfo struct {
	fn       interface{} // *ssa.Function
	bindings []*Val
}

func isNamed(t types.Type, pkg, name string) bool {
	n, ok := t.(*types.Named)
	if !ok {
		return false
	}
	o := n.Obj()
	return o.Name() == name && o.Pkg() != nil && o.Pkg().Path() == pkg
}

// opaque external struct types get a ghost layout instead of their real fields.
func ghostLayout(t types.Type) ([]string, bool) {
	if isNamed(t, "sync", "Mutex") || isNamed(t, "sync", "RWMutex") {
		return []string{"bool"}, true // held
	}
	if isNamed(t, "math/big", "Int") {
		return []string{"int"}, true // the mathematical value
	}
	if isNamed(t, "github.com/kkdai/bstream", "BStream") {
		return []string{"int"}, true // number of bits written so far (writers); meaningless for readers
	}
	if isNamed(t, "container/list", "List") {
		return []string{"int"}, true // an integer naming the list's abstract state (see spec/list.spec)
	}
	if isNamed(t, "bytes", "Reader") {
		return []string{"int"}, true // number of unread bytes
	}
	if isNamed(t, "bytes", "Buffer") {
		return []string{"int"}, true // number of unread bytes held (append-only writer / consuming reader)
	}
	return nil, false
}

func basicKind(b *types.Basic) string {
	switch b.Kind() {
	case types.Bool, types.UntypedBool:
		return "bool"
	case types.Int, types.UntypedInt:
		return "int"
	case types.Int8, types.Uint8:
		return "bv8"
	case types.Int16, types.Uint16:
		return "bv16"
	case types.Int32, types.Uint32, types.UntypedRune:
		return "bv32"
	case types.Int64, types.Uint64, types.Uint, types.Uintptr:
		return "bv64"
	case types.Float64, types.UntypedFloat:
		return "fp"
	case types.Float32:
		return "fp"
	case types.UnsafePointer:
		return "int"
	}
	return ""
}

// A heap kind is a base kind ("bool","int","bv8",...,"str8") optionally tagged
// "@pkg.Type.field": cells of a struct field whose address never escapes live
// in their own heap array (Burstall/Bornat component model), so that writes to
// one field cannot affect another. Fields whose address is taken keep the
// untagged kind of their cells.
func baseKind(k string) string {
	if i := strings.IndexByte(k, '@'); i >= 0 {
		return k[:i]
	}
	return k
}

// fieldAddrEscapes["pkg.Type.field"] is filled by the loader (see scanFieldAddrs).
var fieldAddrEscapes = map[string]bool{}
var fieldTagging = false
var kindsSeen = map[string]bool{}

func kindSort(k string) *Sort {
	k = baseKind(k)
	switch k {
	case "bool":
		return BoolS
	case "int":
		return IntS
	case "bv8", "str8":
		return BVS(8)
	case "bv16":
		return BVS(16)
	case "bv32":
		return BVS(32)
	case "bv64":
		return BVS(64)
	case "fp":
		return FPS
	}
	panic("kindSort " + k)
}

func isSignedT(t types.Type) bool {
	b, ok := t.Underlying().(*types.Basic)
	return ok && b.Info()&types.IsInteger != 0 && b.Info()&types.IsUnsigned == 0
}
func isIntT(t types.Type) bool {
	b, ok := t.Underlying().(*types.Basic)
	return ok && b.Info()&types.IsInteger != 0
}
func isGoInt(t types.Type) bool {
	b, ok := t.Underlying().(*types.Basic)
	return ok && (b.Kind() == types.Int || b.Kind() == types.UntypedInt)
}
func bvWidth(t types.Type) int {
	b, ok := t.Underlying().(*types.Basic)
	if !ok {
		return 0
	}
	switch basicKind(b) {
	case "bv8":
		return 8
	case "bv16":
		return 16
	case "bv32":
		return 32
	case "bv64":
		return 64
	case "int":
		return 64
	}
	return 0
}
func isStringT(t types.Type) bool {
	b, ok := t.Underlying().(*types.Basic)
	return ok && b.Info()&types.IsString != 0
}

// cellKinds lists the heap kinds of the flattened cells of a type, in order.
var layoutCache = map[types.Type][]string{}

func cellKinds(t types.Type) []string {
	if r, ok := layoutCache[t]; ok {
		for _, k := range r {
			kindsSeen[k] = true
		}
		return r
	}
	var r []string
	if g, ok := ghostLayout(t); ok {
		r = g
	} else {
		switch u := t.Underlying().(type) {
		case *types.Basic:
			if isStringT(t) {
				r = []string{"int", "int", "int"}
			} else if k := basicKind(u); k != "" {
				r = []string{k}
				if n, isNamed := t.(*types.Named); isNamed && fieldTagging && n.Obj().Pkg() != nil {
					// cells of a named scalar type are only accessed at that type
					r = []string{k + "@T:" + shortPkg(n.Obj().Pkg().Path()) + "." + n.Obj().Name()}
				}
			} else if u.Kind() == types.UntypedNil {
				r = []string{"int", "int"}
			} else {
				panic(fmt.Sprintf("cellKinds: basic %v", u))
			}
		case *types.Pointer:
			k := refKind("P", t)
			r = []string{k, k}
		case *types.Slice:
			k := refKind("S", t)
			r = []string{k, k, k, k}
		case *types.Interface:
			k := refKind("I", t)
			r = []string{k, k}
		case *types.Map, *types.Signature, *types.Chan:
			r = []string{"int"}
		case *types.Struct:
			tn := structName(t)
			for i := 0; i < u.NumFields(); i++ {
				ft := u.Field(i).Type()
				fk := cellKinds(ft)
				key := tn + "." + u.Field(i).Name()
				_, innerStruct := ft.Underlying().(*types.Struct)
				_, ghost := ghostLayout(ft)
				if fieldTagging && tn != "" && (!innerStruct || ghost) && !fieldAddrEscapes[key] && !arrayOfStructs(ft) {
					for _, k := range fk {
						r = append(r, baseKind(k)+"@"+key)
					}
				} else {
					r = append(r, fk...)
				}
			}
		case *types.Array:
			e := cellKinds(u.Elem())
			for i := int64(0); i < u.Len(); i++ {
				r = append(r, e...)
			}
		case *types.Tuple:
			for i := 0; i < u.Len(); i++ {
				r = append(r, cellKinds(u.At(i).Type())...)
			}
		default:
			panic(fmt.Sprintf("cellKinds: %T %v", u, t))
		}
	}
	layoutCache[t] = r
	for _, k := range r {
		kindsSeen[k] = true
	}
	return r
}

// refKind: cells holding references are kept in heaps typed by the Go type of
// the value they hold (a cell is only ever accessed at its static type), so
// e.g. the elements of a []*wire.TxOut cannot be confused with any other cells.
// (Assumes no conversions between pointer types of distinct named types.)
func refKind(class string, t types.Type) string {
	if !fieldTagging {
		return "int"
	}
	return "int@" + class + ":" + types.TypeString(t, func(p *types.Package) string { return shortPkg(p.Path()) })
}

func structName(t types.Type) string {
	if n, ok := t.(*types.Named); ok && n.Obj().Pkg() != nil {
		return shortPkg(n.Obj().Pkg().Path()) + "." + n.Obj().Name()
	}
	return ""
}

func arrayOfStructs(t types.Type) bool {
	if a, ok := t.Underlying().(*types.Array); ok {
		if _, ok := a.Elem().Underlying().(*types.Struct); ok {
			return true
		}
		return arrayOfStructs(a.Elem())
	}
	return false
}

func sizeOf(t types.Type) int64 {
	if a, ok := t.Underlying().(*types.Array); ok {
		if _, g := ghostLayout(t); !g {
			return a.Len() * sizeOf(a.Elem())
		}
	}
	return int64(len(cellKinds(t)))
}

func fieldOffset(st *types.Struct, idx int) int64 {
	var o int64
	for i := 0; i < idx; i++ {
		o += sizeOf(st.Field(i).Type())
	}
	return o
}

// elemKind: the heap kind holding elements of a slice of / pointer to scalar t
func scalarKind(t types.Type) string {
	ks := cellKinds(t)
	if len(ks) == 1 {
		return ks[0]
	}
	return ""
}

// ---- constructing values from flat terms and back

func flatten(v *Val, out []*Term) []*Term {
	switch v.K {
	case VScalar, VMap, VFunc:
		return append(out, v.S)
	case VPtr:
		return append(out, v.Ref, v.Off)
	case VSlice:
		return append(out, v.Ref, v.Off, v.Len, v.Cap)
	case VString:
		return append(out, v.Ref, v.Off, v.Len)
	case VIface:
		return append(out, v.S, v.Ref)
	case VTuple:
		for _, e := range v.El {
			out = flatten(e, out)
		}
		return out
	}
	panic("flatten")
}

// unflatten builds a value of type t from terms whose sorts follow cellKinds(t)
// (scalars of Go type int are Int-sorted in this canonical form).
func unflatten(t types.Type, ts []*Term) (*Val, []*Term) {
	if _, ok := ghostLayout(t); ok {
		return &Val{K: VScalar, T: t, S: ts[0]}, ts[1:]
	}
	switch u := t.Underlying().(type) {
	case *types.Basic:
		if isStringT(t) {
			return &Val{K: VString, T: t, Ref: ts[0], Off: ts[1], Len: ts[2]}, ts[3:]
		}
		if u.Kind() == types.UntypedNil {
			return &Val{K: VPtr, T: t, Ref: ts[0], Off: ts[1]}, ts[2:]
		}
		return &Val{K: VScalar, T: t, S: ts[0]}, ts[1:]
	case *types.Pointer:
		return &Val{K: VPtr, T: t, Ref: ts[0], Off: ts[1]}, ts[2:]
	case *types.Slice:
		return &Val{K: VSlice, T: t, Ref: ts[0], Off: ts[1], Len: ts[2], Cap: ts[3]}, ts[4:]
	case *types.Interface:
		return &Val{K: VIface, T: t, S: ts[0], Ref: ts[1]}, ts[2:]
	case *types.Map, *types.Chan:
		return &Val{K: VMap, T: t, S: ts[0]}, ts[1:]
	case *types.Signature:
		return &Val{K: VFunc, T: t, S: ts[0]}, ts[1:]
	case *types.Struct:
		v := &Val{K: VTuple, T: t}
		for i := 0; i < u.NumFields(); i++ {
			var e *Val
			e, ts = unflatten(u.Field(i).Type(), ts)
			v.El = append(v.El, e)
		}
		return v, ts
	case *types.Array:
		v := &Val{K: VTuple, T: t}
		for i := int64(0); i < u.Len(); i++ {
			var e *Val
			e, ts = unflatten(u.Elem(), ts)
			v.El = append(v.El, e)
		}
		return v, ts
	case *types.Tuple:
		v := &Val{K: VTuple, T: t}
		for i := 0; i < u.Len(); i++ {
			var e *Val
			e, ts = unflatten(u.At(i).Type(), ts)
			v.El = append(v.El, e)
		}
		return v, ts
	}
	panic(fmt.Sprintf("unflatten %v", t))
}

func zeroTerm(kind string) *Term {
	kind = baseKind(kind)
	switch kind {
	case "bool":
		return False
	case "int":
		return IntLit(0)
	case "fp":
		return FPOp("(_ +zero 11 53)", FPS)
	}
	return BVLit(0, kindSort(kind).W)
}

func zeroVal(t types.Type) *Val {
	ks := cellKinds(t)
	ts := make([]*Term, len(ks))
	for i, k := range ks {
		ts[i] = zeroTerm(k)
	}
	v, _ := unflatten(t, ts)
	return v
}

// freshVal creates an unconstrained value of type t (canonical sorts) and
// returns the type-validity facts that any Go value of that type satisfies.
func freshVal(t types.Type, prefix string) *Val {
	ks := cellKinds(t)
	ts := make([]*Term, len(ks))
	for i, k := range ks {
		ts[i] = Fresh(prefix, kindSort(k))
	}
	v, _ := unflatten(t, ts)
	return v
}

func namedVal(t types.Type, name string) *Val {
	ks := cellKinds(t)
	ts := make([]*Term, len(ks))
	for i, k := range ks {
		n := name
		if len(ks) > 1 {
			n = fmt.Sprintf("%s.%d", name, i)
		}
		ts[i] = Var(n, kindSort(k))
	}
	v, _ := unflatten(t, ts)
	return v
}

var (
	minInt64 = new(big.Int).Neg(new(big.Int).Lsh(big.NewInt(1), 63))
	maxInt64 = new(big.Int).Sub(new(big.Int).Lsh(big.NewInt(1), 63), big.NewInt(1))
)

// validFacts: facts true of every well-typed Go value given that all live
// references are below `next`.
func validFacts(v *Val, next *Term, out []*Term) []*Term {
	refOK := func(r *Term) *Term {
		if next == nil {
			return True
		}
		return Lt(r, next)
	}
	switch v.K {
	case VScalar:
		if v.S.S == IntS && isIntT(v.T) {
			out = append(out, Le(IntBig(minInt64), v.S), Le(v.S, IntBig(maxInt64)))
		}
	case VPtr:
		out = append(out, refOK(v.Ref), Le(IntLit(0), v.Off), Implies(Eq(v.Ref, IntLit(0)), Eq(v.Off, IntLit(0))))
	case VSlice:
		out = append(out, refOK(v.Ref), Le(IntLit(0), v.Off), Le(IntLit(0), v.Len), Le(v.Len, v.Cap), Le(v.Cap, IntBig(MaxLen)),
			Le(v.Off, IntBig(MaxLen)),
			Implies(Eq(v.Ref, IntLit(0)), And(Eq(v.Cap, IntLit(0)), Eq(v.Off, IntLit(0)))))
	case VString:
		out = append(out, refOK(v.Ref), Le(IntLit(0), v.Off), Le(IntLit(0), v.Len), Le(v.Len, IntBig(MaxLen)), Le(v.Off, IntBig(MaxLen)),
			Implies(Eq(v.Ref, IntLit(0)), Eq(v.Len, IntLit(0))))
	case VIface:
		out = append(out, refOK(v.Ref), Le(IntLit(0), v.S), Implies(Eq(v.S, IntLit(0)), Eq(v.Ref, IntLit(0))))
		// a non-nil value of static interface type T has a dynamic type that implements T (type system)
		if it := implTerm(v.T, v.S); it != nil {
			out = append(out, Implies(Not(Eq(v.S, IntLit(0))), it))
		}
	case VMap, VFunc:
		if v.S.S == IntS {
			out = append(out, refOK(v.S), Le(IntLit(0), v.S))
		}
	case VTuple:
		for _, e := range v.El {
			out = validFacts(e, next, out)
		}
	}
	return out
}

// ---- heap state

type State struct {
	H    map[string]*Term // kind -> Array Int (Array Int sort)
	Next *Term
}

func heapSort(kind string) *Sort { return ArrS(IntS, ArrS(IntS, kindSort(kind))) }

func (s *State) clone() *State {
	n := &State{H: make(map[string]*Term, len(s.H)), Next: s.Next}
	for k, v := range s.H {
		n.H[k] = v
	}
	return n
}

// initial heap variables are shared by name so that every state derives from them.
func (s *State) heap(kind string) *Term {
	if h, ok := s.H[kind]; ok {
		return h
	}
	return Var("H0!"+kind, heapSort(kind))
}

func (s *State) row(kind string, ref *Term) *Term { return Select(s.heap(kind), ref) }

func (s *State) loadCell(kind string, ref, off *Term) *Term {
	return Select(Select(s.heap(kind), ref), off)
}
func (s *State) storeCell(kind string, ref, off, v *Term) {
	h := s.heap(kind)
	s.H[kind] = Store(h, ref, Store(Select(h, ref), off, v))
}
func (s *State) setRow(kind string, ref, row *Term) {
	s.H[kind] = Store(s.heap(kind), ref, row)
}

// load a value of type t from (ref, off)
func (s *State) load(t types.Type, ref, off *Term) *Val { return s.loadKinds(t, cellKinds(t), ref, off) }

// loadKinds: as load, with the heap kinds of the cells given explicitly (tagged struct fields).
func (s *State) loadKinds(t types.Type, ks []string, ref, off *Term) *Val {
	if ks == nil {
		ks = cellKinds(t)
	}
	ts := make([]*Term, len(ks))
	for i, k := range ks {
		ts[i] = s.loadCell(k, ref, Add(off, IntLit(int64(i))))
	}
	v, _ := unflatten(t, ts)
	return v
}

func (s *State) store(t types.Type, ref, off *Term, v *Val) { s.storeKinds(t, cellKinds(t), ref, off, v) }

func (s *State) storeKinds(t types.Type, ks []string, ref, off *Term, v *Val) {
	if ks == nil {
		ks = cellKinds(t)
	}
	ts := flatten(v, nil)
	if len(ts) != len(ks) {
		panic(fmt.Sprintf("store: %v has %d cells, value has %d", t, len(ks), len(ts)))
	}
	for i, k := range ks {
		if ts[i].S != kindSort(k) {
			panic(fmt.Sprintf("store: cell %d of %v: sort %s vs kind %s", i, t, ts[i].S, k))
		}
		s.storeCell(k, ref, Add(off, IntLit(int64(i))), ts[i])
	}
}

func mergeStates(conds []*Term, sts []*State) *State {
	if len(sts) == 1 {
		return sts[0].clone()
	}
	out := sts[len(sts)-1].clone()
	for i := len(sts) - 2; i >= 0; i-- {
		c := conds[i]
		kinds := map[string]bool{}
		for k := range out.H {
			kinds[k] = true
		}
		for k := range sts[i].H {
			kinds[k] = true
		}
		for k := range kinds {
			a, b := sts[i].heap(k), out.heap(k)
			if a != b {
				out.H[k] = Ite(c, a, b)
			}
		}
		out.Next = Ite(c, sts[i].Next, out.Next)
	}
	return out
}

func mergeVals(c *Term, a, b *Val) *Val {
	if a == b {
		return a
	}
	if a == nil {
		return b
	}
	if b == nil {
		return a
	}
	fa, fb := flatten(a, nil), flatten(b, nil)
	if len(fa) != len(fb) {
		panic("mergeVals: shape mismatch")
	}
	same := true
	out := make([]*Term, len(fa))
	for i := range fa {
		if fa[i].S != fb[i].S {
			// int-vs-bv representation mismatch: bring to a's sort
			fb[i] = coerceSort(fb[i], fa[i].S, true)
		}
		out[i] = Ite(c, fa[i], fb[i])
		if out[i] != fa[i] {
			same = false
		}
	}
	if same {
		return a
	}
	return rebuildLike(a, out)
}

// rebuildLike builds a value shaped like v from flat terms (sorts may differ from canonical).
func rebuildLike(v *Val, ts []*Term) *Val {
	var rec func(v *Val) *Val
	rec = func(v *Val) *Val {
		n := *v
		switch v.K {
		case VScalar, VMap, VFunc:
			n.S = ts[0]
			ts = ts[1:]
		case VPtr:
			n.Ref, n.Off = ts[0], ts[1]
			ts = ts[2:]
		case VSlice:
			n.Ref, n.Off, n.Len, n.Cap = ts[0], ts[1], ts[2], ts[3]
			ts = ts[4:]
		case VString:
			n.Ref, n.Off, n.Len = ts[0], ts[1], ts[2]
			ts = ts[3:]
		case VIface:
			n.S, n.Ref = ts[0], ts[1]
			ts = ts[2:]
		case VTuple:
			n.El = make([]*Val, len(v.El))
			for i, e := range v.El {
				n.El[i] = rec(e)
			}
		}
		return &n
	}
	return rec(v)
}

// coerceSort converts between Int and BV64 representations of a Go int.
func coerceSort(t *Term, to *Sort, signed bool) *Term {
	if t.S == to {
		return t
	}
	if t.S == IntS && to.K == SBV {
		return Int2BV(to.W, t)
	}
	if t.S.K == SBV && to == IntS {
		if signed {
			return BV2IntSigned(t)
		}
		return BV2Int(t)
	}
	panic(fmt.Sprintf("coerceSort %s -> %s", t.S, to))
}

// newNext: a fresh allocation counter >= cur (fact returned for unguarded assertion).
func newNext(cur *Term) (*Term, *Term) {
	n := Fresh("next", IntS)
	base, k := linView(cur)
	if base != nil && isNextVar(base) && k.Sign() >= 0 {
		nextParent[n] = base
	} else {
		nextParent[n] = nil
	}
	return n, Ge(n, cur)
}

// registerBelow records the (unguarded) facts ref < next for the reference variables of v.
func registerBelow(v *Val, next *Term) {
	base, k := linView(next)
	if base == nil || !isNextVar(base) || k.Sign() > 0 {
		return
	}
	reg := func(r *Term) {
		if r != nil && r.Op == "var" {
			if _, ok := refBelow[r]; !ok {
				refBelow[r] = base
			}
		}
	}
	var walk func(v *Val)
	walk = func(v *Val) {
		switch v.K {
		case VPtr, VSlice, VString, VIface:
			reg(v.Ref)
		case VMap:
			reg(v.S)
		case VTuple:
			for _, e := range v.El {
				walk(e)
			}
		}
	}
	walk(v)
}

// normStrings: string values are immutable and have no observable identity, so
// a string parameter / call result may be taken to start at offset 0 of its own
// object without loss of generality (its object's contents are unconstrained).
// Returns the number of strings normalised.
func normStrings(v *Val) int {
	n := 0
	switch v.K {
	case VString:
		v.Off = IntLit(0)
		n++
	case VTuple:
		for _, e := range v.El {
			n += normStrings(e)
		}
	}
	return n
}

// fieldKinds: heap kinds of the cells of field i of struct type st (named type nt).
func fieldKinds(nt types.Type, st *types.Struct, i int) []string {
	all := cellKinds(nt)
	fo := fieldOffset(st, i)
	return all[fo : fo+sizeOf(st.Field(i).Type())]
}

func allKindsNow() []string {
	base := []string{"bool", "int", "bv8", "bv16", "bv32", "bv64", "fp"}
	seen := map[string]bool{}
	var out []string
	for _, k := range base {
		seen[k] = true
		out = append(out, k)
	}
	for k := range kindsSeen {
		if !seen[k] && k != "str8" {
			seen[k] = true
			out = append(out, k)
		}
	}
	sort.Strings(out)
	return out
}

// implTerm: "the dynamic type with tag `tag` implements interface type t" — an uninterpreted predicate per
// named interface type with methods (nil for the empty interface and unnamed interfaces).
func implTerm(t types.Type, tag *Term) *Term {
	if t == nil {
		return nil
	}
	n, ok := t.(*types.Named)
	if !ok || n.Obj().Pkg() == nil {
		return nil
	}
	it, ok := t.Underlying().(*types.Interface)
	if !ok || it.NumMethods() == 0 {
		return nil
	}
	name := DeclareFun("implements!"+shortPkg(n.Obj().Pkg().Path())+"."+n.Obj().Name(), []*Sort{IntS}, BoolS)
	return App(name, BoolS, tag)
}
