// hints.go: tolerance to renamed locals. Contracts name local variables (loop invariants must).
// A rename in /repo would make such a name unresolvable although nothing about the property changed.
// `govc hints` records, for every function under contract in the pinned tree, each local's type and its
// ordinal among the function's locals of that type (in order of first appearance). When a contract name
// no longer exists in the function, the local that now occupies the same (type, ordinal) slot and whose
// name is new is used instead. This only affects which variable an invariant or assertion talks about:
// every obligation is still proved about the code as it is, and postconditions speak about parameters
// and results, so a wrong guess can make a proof fail but cannot make a false property pass.
package main

import (
	"encoding/json"
	"go/ast"
	"go/types"
	"os"
	"path/filepath"
	"sort"

	"golang.org/x/tools/go/ssa"
)

type localHint struct {
	Type string `json:"type"`
	Ord  int    `json:"ord"`
}

type localInfo struct {
	name string
	typ  string
}

func localsOf(fn *ssa.Function) []localInfo {
	var out []localInfo
	seen := map[string]bool{}
	add := func(n string, t types.Type) {
		if n == "" || n == "_" || seen[n] {
			return
		}
		seen[n] = true
		out = append(out, localInfo{n, mapTypeString(t)})
	}
	for _, b := range fn.Blocks {
		for _, in := range b.Instrs {
			switch d := in.(type) {
			case *ssa.DebugRef:
				if id, ok := d.Expr.(*ast.Ident); ok {
					t := d.X.Type()
					if d.IsAddr {
						if p, ok := t.Underlying().(*types.Pointer); ok {
							t = p.Elem()
						}
					}
					add(id.Name, t)
				}
			case *ssa.Alloc:
				if p, ok := d.Type().Underlying().(*types.Pointer); ok {
					add(d.Comment, p.Elem())
				}
			}
		}
	}
	return out
}

func hintsOf(fn *ssa.Function) map[string]localHint {
	m := map[string]localHint{}
	count := map[string]int{}
	for _, l := range localsOf(fn) {
		m[l.name] = localHint{l.typ, count[l.typ]}
		count[l.typ]++
	}
	return m
}

var localHints map[string]map[string]localHint

func loadHints(specDir string) {
	localHints = map[string]map[string]localHint{}
	b, err := os.ReadFile(filepath.Join(specDir, "localhints.json"))
	if err != nil {
		return
	}
	json.Unmarshal(b, &localHints)
}

// renamedLocal: the current name of the local that the pinned tree called `want` in function fname, or "".
func (v *Verifier) renamedLocal(fn *ssa.Function, want string) string {
	fname := v.prog.names[fn]
	h, ok := localHints[fname][want]
	if !ok {
		return ""
	}
	cur := localsOf(fn)
	for _, l := range cur {
		if l.name == want {
			return "" // still there
		}
	}
	count := map[string]int{}
	for _, l := range cur {
		if l.typ == h.Type {
			if count[l.typ] == h.Ord {
				if _, old := localHints[fname][l.name]; !old {
					return l.name
				}
				return ""
			}
		}
		count[l.typ]++
	}
	return ""
}

// cmdHints writes spec/localhints.json for the functions under contract (run on the pinned tree).
func cmdHints(args []string) {
	repo, spec := "/repo", "/verif/spec"
	v, err := setup(repo, spec)
	if err != nil {
		panic(err)
	}
	out := map[string]map[string]localHint{}
	var names []string
	for n := range v.lib.Contracts {
		names = append(names, n)
	}
	sort.Strings(names)
	for _, n := range names {
		fn := v.prog.byName[n]
		if fn == nil || !v.prog.inRepo(fn) {
			continue
		}
		if h := hintsOf(fn); len(h) > 0 {
			out[n] = h
		}
	}
	b, _ := json.MarshalIndent(out, "", " ")
	os.WriteFile(filepath.Join(spec, "localhints.json"), b, 0o644)
}
