// bridge.go: theory lemmas relating bit-vector arithmetic to integer
// arithmetic, instantiated for the terms of an obligation. Every fact added is
// a theorem of the combined theory (so adding it is sound); solvers are weak at
// finding them through int2bv/bv2nat.
package main

import (
	"math/big"
	"sort"
)

func pow2(w int) *big.Int { return new(big.Int).Lsh(big.NewInt(1), uint(w)) }

func bridgeFacts(terms []*Term) []*Term {
	var out []*Term
	done := map[*Term]bool{}
	seenFact := map[*Term]bool{}
	add := func(t *Term) {
		if t != True && !seenFact[t] {
			seenFact[t] = true
			out = append(out, t)
		}
	}
	var work []*Term // bit-vector terms whose integer value matters
	want := func(x *Term) {
		if !done[x] && !x.hasB && x.Op != "bv" {
			done[x] = true
			work = append(work, x)
		}
	}
	ord, _ := collect(terms)
	cmps := [][3]interface{}{}
	for _, t := range ord {
		switch t.Op {
		case "bv2nat", "sbv2int":
			want(t.Args[0])
		case "bvult", "bvule":
			cmps = append(cmps, [3]interface{}{t.Op, t.Args[0], t.Args[1]})
			// a comparison against a converted integer is really an integer comparison
			if t.Args[0].Op == "int2bv" || t.Args[1].Op == "int2bv" {
				want(t.Args[0])
				want(t.Args[1])
			}
		case "=":
			if t.Args[0].S.K == SBV && (t.Args[0].Op == "int2bv" || t.Args[1].Op == "int2bv") && !t.hasB {
				want(t.Args[0])
				want(t.Args[1])
				a, b := t.Args[0], t.Args[1]
				if a.Op != "bv" && b.Op != "bv" {
					add(Eq(Eq(a, b), Eq(BV2Int(a), BV2Int(b))))
				}
			}
		}
	}
	lit := func(t *Term) (*big.Int, bool) {
		if t.Op == "bv" {
			return t.V, true
		}
		return nil, false
	}
	for len(work) > 0 {
		x := work[len(work)-1]
		work = work[:len(work)-1]
		w := x.S.W
		nx := BV2Int(x)
		add(And(Le(IntLit(0), nx), Lt(nx, IntBig(pow2(w)))))
		switch x.Op {
		case "int2bv":
			a := x.Args[0]
			add(Implies(And(Le(IntLit(0), a), Lt(a, IntBig(pow2(w)))), Eq(nx, a)))
			add(Implies(And(Le(IntBig(new(big.Int).Neg(pow2(w-1))), a), Lt(a, IntBig(pow2(w-1)))), Eq(BV2IntSigned(x), a)))
		case "bvudiv":
			if c, ok := lit(x.Args[1]); ok && c.Sign() > 0 {
				want(x.Args[0])
				add(Eq(nx, IDiv(BV2Int(x.Args[0]), IntBig(c))))
			}
		case "bvurem":
			if c, ok := lit(x.Args[1]); ok && c.Sign() > 0 {
				want(x.Args[0])
				add(Eq(nx, IMod(BV2Int(x.Args[0]), IntBig(c))))
			} else {
				want(x.Args[0])
				want(x.Args[1])
				nb := BV2Int(x.Args[1])
				add(Implies(Gt(nb, IntLit(0)), And(Lt(nx, nb), Le(nx, BV2Int(x.Args[0])))))
			}
		case "bvmul":
			if _, l0 := lit(x.Args[0]); !l0 {
				if _, l1 := lit(x.Args[1]); !l1 {
					want(x.Args[0])
					want(x.Args[1])
					p := Mul(BV2Int(x.Args[0]), BV2Int(x.Args[1]))
					add(Implies(Lt(p, IntBig(pow2(w))), Eq(nx, p)))
					add(Le(IntLit(0), p))
					if w%2 == 0 {
						// half-width operands cannot overflow: (2^(w/2)-1)^2 < 2^w
						h := IntBig(pow2(w / 2))
						m := new(big.Int).Sub(pow2(w/2), big.NewInt(1))
						add(Implies(And(Lt(BV2Int(x.Args[0]), h), Lt(BV2Int(x.Args[1]), h)), Le(p, IntBig(new(big.Int).Mul(m, m)))))
					}
				}
			}
			for i := 0; i < 2; i++ {
				if c, ok := lit(x.Args[i]); ok {
					a := x.Args[1-i]
					want(a)
					p := Mul(IntBig(c), BV2Int(a))
					add(Implies(Lt(p, IntBig(pow2(w))), Eq(nx, p)))
				}
			}
		case "bvadd":
			for i := 0; i < 2; i++ {
				if c, ok := lit(x.Args[i]); ok {
					a := x.Args[1-i]
					want(a)
					s := Add(BV2Int(a), IntBig(c))
					add(Implies(Lt(s, IntBig(pow2(w))), Eq(nx, s)))
					// adding 2^w - k is subtracting k
					k := new(big.Int).Sub(pow2(w), c)
					d := Sub(BV2Int(a), IntBig(k))
					add(Implies(Ge(d, IntLit(0)), Eq(nx, d)))
				}
			}
			if _, ok := lit(x.Args[0]); !ok {
				if _, ok := lit(x.Args[1]); !ok {
					want(x.Args[0])
					want(x.Args[1])
					s := Add(BV2Int(x.Args[0]), BV2Int(x.Args[1]))
					add(Implies(Lt(s, IntBig(pow2(w))), Eq(nx, s)))
				}
			}
		case "bvsub":
			want(x.Args[0])
			want(x.Args[1])
			d := Sub(BV2Int(x.Args[0]), BV2Int(x.Args[1]))
			add(Implies(Ge(d, IntLit(0)), Eq(nx, d)))
		case "bvshl":
			if c, ok := lit(x.Args[1]); ok && c.Cmp(big.NewInt(int64(w))) < 0 {
				want(x.Args[0])
				p := Mul(IntBig(pow2(int(c.Int64()))), BV2Int(x.Args[0]))
				add(Implies(Lt(p, IntBig(pow2(w))), Eq(nx, p)))
			}
		case "bvlshr":
			if c, ok := lit(x.Args[1]); ok && c.Cmp(big.NewInt(int64(w))) < 0 {
				want(x.Args[0])
				add(Eq(nx, IDiv(BV2Int(x.Args[0]), IntBig(pow2(int(c.Int64()))))))
			}
		case "bvand":
			for i := 0; i < 2; i++ {
				if c, ok := lit(x.Args[i]); ok {
					c1 := new(big.Int).Add(c, big.NewInt(1))
					if c1.BitLen() > 0 && new(big.Int).And(c1, c).Sign() == 0 { // c = 2^k - 1
						want(x.Args[1-i])
						add(Eq(nx, IMod(BV2Int(x.Args[1-i]), IntBig(c1))))
					}
					add(Le(nx, IntBig(c)))
				}
			}
		case "zero_extend":
			want(x.Args[0])
			add(Eq(nx, BV2Int(x.Args[0])))
		case "extract":
			// low bits
			if x.S.W < x.Args[0].S.W && x.Name[len(x.Name)-3:] == " 0)" {
				want(x.Args[0])
				add(Eq(nx, IMod(BV2Int(x.Args[0]), IntBig(pow2(w)))))
			}
		case "ite":
			want(x.Args[1])
			want(x.Args[2])
			add(Eq(nx, Ite(x.Args[0], BV2Int(x.Args[1]), BV2Int(x.Args[2]))))
		}
	}
	// injectivity of the unsigned value, for converted integers against the other terms of that width
	{
		var all []*Term
		for x := range done {
			all = append(all, x)
		}
		sort.Slice(all, func(i, j int) bool { return all[i].id < all[j].id })
		n := 0
		for _, a := range all {
			if a.Op != "int2bv" {
				continue
			}
			for _, b := range all {
				if b == a || b.S != a.S || (b.Op == "int2bv" && b.id < a.id) {
					continue
				}
				if n > 150 {
					break
				}
				n++
				add(Implies(Eq(BV2Int(a), BV2Int(b)), Eq(a, b)))
			}
		}
	}
	for _, c := range cmps {
		a, b := c[1].(*Term), c[2].(*Term)
		if a.hasB || b.hasB {
			continue
		}
		if !(done[a] || done[b]) {
			continue
		}
		if c[0].(string) == "bvult" {
			add(Eq(BVCmp("bvult", a, b), Lt(BV2Int(a), BV2Int(b))))
		} else {
			add(Eq(BVCmp("bvule", a, b), Le(BV2Int(a), BV2Int(b))))
		}
	}
	return out
}
