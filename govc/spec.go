// spec.go: spec library (spec functions, lemmas, axioms) and function contracts.
package main

import (
	"bufio"
	"fmt"
	"os"
	"path/filepath"
	"sort"
	"strconv"
	"strings"
)

type SpecParam struct{ Name, Type string }

type SpecFun struct {
	Name, SMTName string
	Params        []SpecParam
	RetType       string
	RetSort       *Sort
	RetSigned     bool
	Body          Expr
	BodySrc       string
	Rec           bool
	Macro         bool // expanded at every use (so that triggers see the body)
	Opaque        bool
	ParamVars     []*Term
	BodyTerm      *Term
	Deps          map[string]bool
	Where         string
}

type Lemma struct {
	Name   string
	Params []SpecParam
	Stmt   Expr
	Src    string
	By     string   // "smt" | "induction <var>" | "axiom"
	Uses   []string // lemmas assumed (instantiated universally) while proving
	Reveal []string // rec functions unfolded with extra fuel
	Opaque []string
	Expand []string // non-recursive spec functions replaced by their bodies in this lemma's query, so that the instantiation pass sees the array reads inside them
	Where  string
	Axiom  bool
	Triggers []string
}

type Clause struct {
	E     Expr
	Src   string
	Where string
	Any   string // modifies target "any pkg.Type.field": that field of every object of the type
}

type LoopSpec struct {
	Invariants []Clause
	Decreases  *Clause
	Unroll     int
	InlineUnroll int // unroll bound used only when the function's body is inlined into a lemma function
	Modifies   []Clause
}

type Contract struct {
	Fn        string
	Requires  []Clause
	Ensures   []Clause
	Modifies  []Clause // nil + ModNothing=false => unspecified
	ModSet    bool
	Decreases *Clause
	Loops     map[int]*LoopSpec
	Inline    bool
	Trusted   bool // assumed, not verified (externals)
	Uses      []string
	Opaque    []string
	Reveal    map[string]int
	NoOverflow bool // treat int arithmetic as mathematical without obligations
	Where     string
	Lemma     bool // ghost lemma function: body is verified, never called by real code
	Skip      map[string]bool // obligation kinds not generated (stated in evidence)
	MayPanic  bool
	Asserts   []AssertAt
	Alloc     *Clause  // upper bound (in elements) on every allocation the function makes whose size is not constant
	Inlines   []string // (lemma functions) callees whose bodies are executed instead of their contracts
	UseInst   []Clause // explicit lemma instances: lemma(args...) over the function's parameters
	MapInvs   []MapInv
	RevealIn  map[string][]string // obligation-name suffix -> opaque spec functions revealed for that obligation only
	LocalTypes map[string]string  // local variable name -> required Go type (printed with package names)
	AliasInst bool // (lemma functions) "snapshotinst": quantified facts are also instantiated through the array equalities that bind snapshots introduce
	Skolemize map[string]bool // (lemma functions) callees whose postconditions (forall k. H) ==> C are assumed as H(sk) ==> C
	CallerEnsures []CallerClause  // postconditions known to callers only (ghost definitions; clauses justified by a lemma function)
}

// CallerClause: a postcondition that is assumed at call sites and is not an obligation of the body.
//   ghostdef <clause>            defines ghost (uninterpreted) functions at the identity of a freshly allocated
//                                result; sound because no other fact can mention that identity (the contract
//                                must establish fresh(result))
//   ensures-by <lemmafunc>: <c>  a consequence of this and other contracts that the named ghost lemma function
//                                proves (it asserts exactly this clause after calling the function); the check
//                                refuses the clause unless that lemma function is verified in the same run, and
//                                the clause is not assumed inside that lemma function
type CallerClause struct {
	C  Clause
	By string
}

// MapInv: an invariant over every value stored in maps of one type ($v is the
// value). Assumed at lookups / range, an obligation at every map assignment.
type MapInv struct {
	Type string // as printed with package names, e.g. map[chainhash.Hash][]*bloom.txWithIndex
	C    Clause
}

// AssertAt: a proof-decomposition assertion checked (and then assumed) right
// after the Ord-th call of Callee in the function body.
type AssertAt struct {
	Callee string
	Ord    int
	C      Clause
	Lemma  bool // "assert after f#k: lemma L(args)": an instance of the proved lemma L is made available here
	Path   []string // "assert after g/f#k": the call of f inside the inlined body of g (lemma functions that inline callees)
	Bind   string   // "bind after f#k: $name = expr": names a ghost value for later anchors of this function
	Label  string   // "assert after f#k as NAME: expr": names the assertion
	Expand []string // "assert after f#k ... expand f, g: expr": these non-recursive spec functions are replaced by their bodies in the query
	From   []string // "assert after f#k from A, B: expr": proved from the named earlier assertions alone (a smaller query; proving from a subset of the hypotheses is sound)
}

// Guard: field Field of struct type Type may only be accessed while the mutex field Mutex of the same object is held.
type Guard struct{ Type, Field, Mutex string }

// GlobalFact: an assumed fact about package-level variables that are initialised by a call at package
// initialisation and never written afterwards (read off the initialiser; listed as an assumption).
type GlobalFact struct {
	Pkg string
	C   Clause
}

type SpecLib struct {
	GlobalFacts []GlobalFact
	Guards    []Guard
	Funs      map[string]*SpecFun
	Order     []string
	Lemmas    map[string]*Lemma
	LemmaOrd  []string
	Contracts map[string]*Contract
	Consts    map[string]*CV
}

func newSpecLib() *SpecLib {
	return &SpecLib{Funs: map[string]*SpecFun{}, Lemmas: map[string]*Lemma{}, Contracts: map[string]*Contract{}, Consts: map[string]*CV{}}
}

// readStatements returns logical lines (continuations joined) with locations.
func readStatements(path string, prefix string) ([][2]string, error) {
	f, err := os.Open(path)
	if err != nil {
		return nil, err
	}
	defer f.Close()
	var out [][2]string
	sc := bufio.NewScanner(f)
	sc.Buffer(make([]byte, 1<<20), 1<<20)
	ln := 0
	cur, curWhere := "", ""
	flush := func() {
		if strings.TrimSpace(cur) != "" {
			out = append(out, [2]string{strings.TrimSpace(cur), curWhere})
		}
		cur = ""
	}
	for sc.Scan() {
		ln++
		line := sc.Text()
		if prefix != "" {
			t := strings.TrimSpace(line)
			if !strings.HasPrefix(t, prefix) {
				flush()
				continue
			}
			line = strings.TrimPrefix(t, prefix)
		} else {
			if i := strings.Index(line, "#"); i >= 0 && (i == 0 || line[i-1] == ' ' || line[i-1] == '\t') {
				line = line[:i]
			}
		}
		if strings.TrimSpace(line) == "" {
			flush()
			continue
		}
		cont := cur != "" && strings.HasSuffix(strings.TrimSpace(cur), "\\")
		if cont {
			cur = strings.TrimSuffix(strings.TrimSpace(cur), "\\") + " " + strings.TrimSpace(line)
			continue
		}
		flush()
		cur = line
		curWhere = fmt.Sprintf("%s:%d", filepath.Base(path), ln)
	}
	flush()
	return out, nil
}

func parseParams(s string) ([]SpecParam, error) {
	s = strings.TrimSpace(s)
	if s == "" {
		return nil, nil
	}
	var ps []SpecParam
	for _, p := range strings.Split(s, ",") {
		fs := strings.Fields(strings.ReplaceAll(p, ":", " "))
		if len(fs) != 2 {
			return nil, fmt.Errorf("bad parameter %q", p)
		}
		ps = append(ps, SpecParam{fs[0], fs[1]})
	}
	return ps, nil
}

func (lib *SpecLib) loadFile(path, prefix string) error {
	stmts, err := readStatements(path, prefix)
	if err != nil {
		return err
	}
	var cur *Contract
	var curLemma *Lemma
	for _, st := range stmts {
		text, where := st[0], st[1]
		word, rest := text, ""
		if i := strings.IndexAny(text, " \t"); i >= 0 {
			word, rest = text[:i], strings.TrimSpace(text[i+1:])
		}
		bad := func(e error) error { return fmt.Errorf("%s: %v", where, e) }
		clause := func(src string) (Clause, error) {
			e, err := parseExpr(src)
			return Clause{E: e, Src: src, Where: where}, err
		}
		switch word {
		case "spec":
			cur, curLemma = nil, nil
			// spec [rec] fn name(params) type = body   |  spec ufn name(params) type
			fs := strings.Fields(rest)
			rec, ufn, macro := false, false, false
			if len(fs) > 0 && fs[0] == "rec" {
				rec = true
				rest = strings.TrimSpace(strings.TrimPrefix(rest, "rec"))
			}
			if len(fs) > 0 && fs[0] == "macro" {
				macro = true
				rest = strings.TrimSpace(strings.TrimPrefix(rest, "macro"))
			}
			switch {
			case strings.HasPrefix(rest, "ufn "):
				ufn = true
				rest = strings.TrimPrefix(rest, "ufn ")
			case strings.HasPrefix(rest, "fn "):
				rest = strings.TrimPrefix(rest, "fn ")
			default:
				return bad(fmt.Errorf("expected fn/ufn"))
			}
			op, cl := strings.Index(rest, "("), strings.Index(rest, ")")
			if op < 0 || cl < op {
				return bad(fmt.Errorf("bad spec fn header"))
			}
			name := strings.TrimSpace(rest[:op])
			ps, err := parseParams(rest[op+1 : cl])
			if err != nil {
				return bad(err)
			}
			after := strings.TrimSpace(rest[cl+1:])
			ret, body := after, ""
			if i := strings.Index(after, "="); i >= 0 && !ufn {
				ret, body = strings.TrimSpace(after[:i]), strings.TrimSpace(after[i+1:])
			}
			ret = strings.TrimPrefix(ret, ":")
			ret = strings.TrimSpace(ret)
			f := &SpecFun{Name: name, SMTName: mangle("s!" + name), Params: ps, RetType: ret, Rec: rec, Macro: macro, Where: where, BodySrc: body}
			kind, w, sg, ok := parseTypeName(ret)
			if !ok || strings.HasPrefix(kind, "seq") {
				return bad(fmt.Errorf("bad return type %q", ret))
			}
			switch kind {
			case "int":
				f.RetSort = IntS
			case "bool":
				f.RetSort = BoolS
			case "fp":
				f.RetSort = FPS
			case "bv":
				f.RetSort = BVS(w)
				f.RetSigned = sg
			}
			if !ufn {
				e, err := parseExpr(body)
				if err != nil {
					return bad(err)
				}
				f.Body = e
			}
			if _, dup := lib.Funs[name]; dup {
				return bad(fmt.Errorf("duplicate spec fn %s", name))
			}
			lib.Funs[name] = f
			lib.Order = append(lib.Order, name)
		case "lemma", "axiom":
			cur = nil
			// lemma name(params): stmt
			op, cl := strings.Index(rest, "("), strings.Index(rest, ")")
			if op < 0 || cl < op {
				return bad(fmt.Errorf("bad lemma header"))
			}
			name := strings.TrimSpace(rest[:op])
			ps, err := parseParams(rest[op+1 : cl])
			if err != nil {
				return bad(err)
			}
			after := strings.TrimSpace(rest[cl+1:])
			after = strings.TrimSpace(strings.TrimPrefix(after, ":"))
			e, err := parseExpr(after)
			if err != nil {
				return bad(err)
			}
			l := &Lemma{Name: name, Params: ps, Stmt: e, Src: after, By: "smt", Where: where, Axiom: word == "axiom"}
			lib.Lemmas[name] = l
			lib.LemmaOrd = append(lib.LemmaOrd, name)
			curLemma = l
		case "by":
			if curLemma == nil {
				return bad(fmt.Errorf("'by' outside lemma"))
			}
			curLemma.By = rest
		case "trigger":
			if curLemma == nil {
				return bad(fmt.Errorf("'trigger' outside lemma"))
			}
			curLemma.Triggers = append(curLemma.Triggers, rest)
		case "globalfact":
			// globalfact <pkg>: <expr over that package's globals>
			i := strings.Index(rest, ":")
			if i < 0 {
				return bad(fmt.Errorf("globalfact <pkg>: <expr>"))
			}
			c, err := clause(strings.TrimSpace(rest[i+1:]))
			if err != nil {
				return bad(err)
			}
			lib.GlobalFacts = append(lib.GlobalFacts, GlobalFact{Pkg: strings.TrimSpace(rest[:i]), C: c})
			cur, curLemma = nil, nil
		case "guard":
			// guard <pkg.Type>.<field> by <mutexfield>
			fs := strings.Fields(rest)
			if len(fs) != 3 || fs[1] != "by" {
				return bad(fmt.Errorf("guard <pkg.Type>.<field> by <mutexfield>"))
			}
			i := strings.LastIndex(fs[0], ".")
			lib.Guards = append(lib.Guards, Guard{Type: fs[0][:i], Field: fs[0][i+1:], Mutex: fs[2]})
			cur, curLemma = nil, nil
		case "func", "lemmafunc":
			curLemma = nil
			c := lib.Contracts[rest]
			if c == nil {
				c = &Contract{Fn: rest, Loops: map[int]*LoopSpec{}, Reveal: map[string]int{}, Where: where, Skip: map[string]bool{}}
				lib.Contracts[rest] = c
			}
			if word == "lemmafunc" {
				c.Lemma = true
			}
			cur = c
		case "uses":
			if cur != nil && strings.Contains(rest, "(") {
				c, err := clause(rest)
				if err != nil {
					return bad(err)
				}
				cur.UseInst = append(cur.UseInst, c)
				if call, ok := c.E.(*ECall); ok {
					cur.Uses = append(cur.Uses, call.Fun)
				}
				continue
			}
			names := strings.FieldsFunc(rest, func(r rune) bool { return r == ',' || r == ' ' })
			if curLemma != nil {
				curLemma.Uses = append(curLemma.Uses, names...)
			} else if cur != nil {
				cur.Uses = append(cur.Uses, names...)
			} else {
				return bad(fmt.Errorf("'uses' outside lemma/func"))
			}
		case "localtype":
			// localtype <name>: <Go type>   (e.g. an index that must be keyed by the full 64-bit value)
			i := strings.Index(rest, ":")
			if i < 0 || cur == nil {
				return bad(fmt.Errorf("localtype <name>: <type>"))
			}
			if cur.LocalTypes == nil {
				cur.LocalTypes = map[string]string{}
			}
			cur.LocalTypes[strings.TrimSpace(rest[:i])] = strings.TrimSpace(rest[i+1:])
		case "revealin":
			// revealin <obligation suffix>: f, g
			i := strings.Index(rest, ":")
			if i < 0 || cur == nil {
				return bad(fmt.Errorf("revealin <obligation suffix>: <spec functions>"))
			}
			if cur.RevealIn == nil {
				cur.RevealIn = map[string][]string{}
			}
			k := strings.TrimSpace(rest[:i])
			cur.RevealIn[k] = append(cur.RevealIn[k], strings.FieldsFunc(rest[i+1:], func(r rune) bool { return r == ',' || r == ' ' })...)
		case "opaque":
			names := strings.FieldsFunc(rest, func(r rune) bool { return r == ',' || r == ' ' })
			if curLemma != nil {
				curLemma.Opaque = append(curLemma.Opaque, names...)
			} else if cur != nil {
				cur.Opaque = append(cur.Opaque, names...)
			}
		case "expand":
			names := strings.FieldsFunc(rest, func(r rune) bool { return r == ',' || r == ' ' })
			if curLemma != nil {
				curLemma.Expand = append(curLemma.Expand, names...)
			} else {
				return bad(fmt.Errorf("'expand' is a lemma directive"))
			}
		case "reveal":
			names := strings.FieldsFunc(rest, func(r rune) bool { return r == ',' || r == ' ' })
			if curLemma != nil {
				curLemma.Reveal = append(curLemma.Reveal, names...)
			} else if cur != nil {
				for _, n := range names {
					cur.Reveal[n]++
				}
			}
		default:
			if cur == nil {
				return bad(fmt.Errorf("clause %q outside func block", word))
			}
			switch word {
			case "requires":
				c, err := clause(rest)
				if err != nil {
					return bad(err)
				}
				cur.Requires = append(cur.Requires, c)
			case "ensures":
				c, err := clause(rest)
				if err != nil {
					return bad(err)
				}
				cur.Ensures = append(cur.Ensures, c)
			case "snapshotinst":
				cur.AliasInst = true
			case "skolemize":
				if cur.Skolemize == nil {
					cur.Skolemize = map[string]bool{}
				}
				for _, n := range strings.FieldsFunc(rest, func(r rune) bool { return r == ',' || r == ' ' }) {
					cur.Skolemize[n] = true
				}
			case "ghostdef":
				c, err := clause(rest)
				if err != nil {
					return bad(err)
				}
				cur.CallerEnsures = append(cur.CallerEnsures, CallerClause{C: c})
			case "ensures-by":
				i := strings.Index(rest, ":")
				if i < 0 {
					return bad(fmt.Errorf("ensures-by <lemma function>: <clause>"))
				}
				c, err := clause(strings.TrimSpace(rest[i+1:]))
				if err != nil {
					return bad(err)
				}
				cur.CallerEnsures = append(cur.CallerEnsures, CallerClause{C: c, By: strings.TrimSpace(rest[:i])})
			case "decreases":
				c, err := clause(rest)
				if err != nil {
					return bad(err)
				}
				cur.Decreases = &c
			case "modifies":
				cur.ModSet = true
				ms, err := parseModifies(rest, where)
				if err != nil {
					return bad(err)
				}
				cur.Modifies = append(cur.Modifies, ms...)
			case "assert", "bind":
				// assert after [outer/]callee#k: expr        bind after [outer/]callee#k: $name = expr
				r := strings.TrimSpace(strings.TrimPrefix(rest, "after"))
				i := strings.Index(r, ":")
				if i < 0 {
					return bad(fmt.Errorf("assert after <callee>#<k>: <expr>"))
				}
				loc, ex := strings.TrimSpace(r[:i]), strings.TrimSpace(r[i+1:])
				label := ""
				var from []string
				var expand []string
				if j := strings.Index(loc, " expand "); j >= 0 {
					expand = strings.FieldsFunc(loc[j+8:], func(r rune) bool { return r == ',' || r == ' ' })
					loc = strings.TrimSpace(loc[:j])
				}
				if j := strings.Index(loc, " from "); j >= 0 {
					from = strings.FieldsFunc(loc[j+6:], func(r rune) bool { return r == ',' || r == ' ' })
					loc = strings.TrimSpace(loc[:j])
				}
				if j := strings.Index(loc, " as "); j >= 0 {
					label = strings.TrimSpace(loc[j+4:])
					loc = strings.TrimSpace(loc[:j])
				}
				ord := 1
				if j := strings.Index(loc, "#"); j >= 0 {
					ord, _ = strconv.Atoi(loc[j+1:])
					loc = loc[:j]
				}
				var path []string
				if strings.Contains(loc, "/") {
					parts := strings.Split(loc, "/")
					path, loc = parts[:len(parts)-1], parts[len(parts)-1]
				}
				if word == "bind" {
					eq := strings.Index(ex, "=")
					if eq < 0 || !strings.HasPrefix(ex, "$") {
						return bad(fmt.Errorf("bind after <callee>#<k>: $name = <expr>"))
					}
					nm := strings.TrimSpace(ex[:eq])
					c, err := clause(strings.TrimSpace(ex[eq+1:]))
					if err != nil {
						return bad(err)
					}
					cur.Asserts = append(cur.Asserts, AssertAt{Callee: loc, Ord: ord, C: c, Path: path, Bind: nm})
					continue
				}
				isLemma := false
				if strings.HasPrefix(ex, "lemma ") {
					isLemma = true
					ex = strings.TrimSpace(strings.TrimPrefix(ex, "lemma "))
				}
				c, err := clause(ex)
				if err != nil {
					return bad(err)
				}
				if isLemma {
					call, ok := c.E.(*ECall)
					if !ok {
						return bad(fmt.Errorf("assert after ...: lemma <name>(args)"))
					}
					cur.Uses = append(cur.Uses, call.Fun)
				}
				cur.Asserts = append(cur.Asserts, AssertAt{Callee: loc, Ord: ord, C: c, Lemma: isLemma, Path: path, Label: label, From: from, Expand: expand})
			case "mapinv":
				i := strings.Index(rest, ": ")
				if i < 0 {
					return bad(fmt.Errorf("mapinv <map type>: <expr over $v>"))
				}
				c, err := clause(strings.TrimSpace(rest[i+2:]))
				if err != nil {
					return bad(err)
				}
				cur.MapInvs = append(cur.MapInvs, MapInv{Type: strings.TrimSpace(rest[:i]), C: c})
			case "alloc":
				c, err := clause(rest)
				if err != nil {
					return bad(err)
				}
				cur.Alloc = &c
			case "inlines":
				cur.Inlines = append(cur.Inlines, strings.FieldsFunc(rest, func(r rune) bool { return r == ',' || r == ' ' })...)
			case "inline":
				cur.Inline = true
			case "trusted":
				cur.Trusted = true
			case "maypanic":
				cur.MayPanic = true
			case "nooverflow":
				cur.NoOverflow = true
			case "skip":
				for _, k := range strings.Fields(rest) {
					cur.Skip[k] = true
				}
			case "loop":
				fs := strings.SplitN(rest, " ", 3)
				if len(fs) < 2 {
					return bad(fmt.Errorf("bad loop clause"))
				}
				k, err := strconv.Atoi(fs[0])
				if err != nil {
					return bad(err)
				}
				ls := cur.Loops[k]
				if ls == nil {
					ls = &LoopSpec{}
					cur.Loops[k] = ls
				}
				arg := ""
				if len(fs) == 3 {
					arg = fs[2]
				}
				switch fs[1] {
				case "invariant":
					c, err := clause(arg)
					if err != nil {
						return bad(err)
					}
					ls.Invariants = append(ls.Invariants, c)
				case "decreases":
					c, err := clause(arg)
					if err != nil {
						return bad(err)
					}
					ls.Decreases = &c
				case "unroll":
					n, err := strconv.Atoi(strings.TrimSpace(arg))
					if err != nil {
						return bad(err)
					}
					ls.Unroll = n
				case "inline-unroll":
					n, err := strconv.Atoi(strings.TrimSpace(arg))
					if err != nil {
						return bad(err)
					}
					ls.InlineUnroll = n
				case "modifies":
					ms, err := parseModifies(arg, where)
					if err != nil {
						return bad(err)
					}
					ls.Modifies = append(ls.Modifies, ms...)
				default:
					return bad(fmt.Errorf("unknown loop clause %q", fs[1]))
				}
			default:
				return bad(fmt.Errorf("unknown clause %q", word))
			}
		}
	}
	return nil
}

func parseModifies(rest, where string) ([]Clause, error) {
	rest = strings.TrimSpace(rest)
	if rest == "nothing" {
		return nil, nil
	}
	var out []Clause
	depth := 0
	start := 0
	parts := []string{}
	for i, c := range rest {
		switch c {
		case '(', '[':
			depth++
		case ')', ']':
			depth--
		case ',':
			if depth == 0 {
				parts = append(parts, rest[start:i])
				start = i + 1
			}
		}
	}
	parts = append(parts, rest[start:])
	for _, p := range parts {
		p = strings.TrimSpace(p)
		src := p
		if strings.HasPrefix(p, "any ") {
			out = append(out, Clause{Src: src, Where: where, Any: strings.TrimSpace(p[4:])})
			continue
		}
		p = strings.ReplaceAll(p, "[*]", ".$all")
		if strings.HasPrefix(p, "*") {
			p = strings.TrimPrefix(p, "*") + ".$obj"
		}
		e, err := parseExpr(p)
		if err != nil {
			return nil, err
		}
		out = append(out, Clause{E: e, Src: src, Where: where})
	}
	return out, nil
}

func (lib *SpecLib) loadDir(dir string) error {
	fs, _ := filepath.Glob(filepath.Join(dir, "*.spec"))
	sort.Strings(fs)
	for _, f := range fs {
		if err := lib.loadFile(f, ""); err != nil {
			return err
		}
	}
	return nil
}

// loadRepoContracts reads //@ lines from every *_verif.go under the repo.
func (lib *SpecLib) loadRepoContracts(repo string) error {
	var files []string
	filepath.Walk(repo, func(p string, info os.FileInfo, err error) error {
		if err == nil && !info.IsDir() && strings.HasSuffix(p, "_verif.go") {
			files = append(files, p)
		}
		return nil
	})
	sort.Strings(files)
	for _, f := range files {
		if err := lib.loadFile(f, "//@"); err != nil {
			return err
		}
	}
	return nil
}

// ---- building spec function bodies

func specParamSorts(p SpecParam) []*Sort {
	kind, w, _, ok := parseTypeName(p.Type)
	if !ok {
		panic("bad spec param type " + p.Type)
	}
	switch {
	case kind == "int":
		return []*Sort{IntS}
	case kind == "bool":
		return []*Sort{BoolS}
	case kind == "fp":
		return []*Sort{FPS}
	case kind == "bv":
		return []*Sort{BVS(w)}
	default:
		return []*Sort{ArrS(IntS, seqElemSort(kind)), IntS}
	}
}

func (lib *SpecLib) paramEnv(ps []SpecParam, prefix string, bound bool) (*Env, []*Term) {
	env := &Env{vars: map[string]*CV{}, lib: lib}
	var vars []*Term
	mk := func(n string, s *Sort) *Term {
		if bound {
			return BoundVar(n, s)
		}
		return Var(prefix+n, s)
	}
	for _, p := range ps {
		kind, w, sg, _ := parseTypeName(p.Type)
		switch {
		case kind == "int":
			v := mk(p.Name, IntS)
			env.vars[p.Name] = cvInt(v)
			vars = append(vars, v)
		case kind == "bool":
			v := mk(p.Name, BoolS)
			env.vars[p.Name] = cvBool(v)
			vars = append(vars, v)
		case kind == "fp":
			v := mk(p.Name, FPS)
			env.vars[p.Name] = &CV{K: CFP, T: v}
			vars = append(vars, v)
		case kind == "bv":
			v := mk(p.Name, BVS(w))
			env.vars[p.Name] = &CV{K: CBV, T: v, Signed: sg}
			vars = append(vars, v)
		default:
			r := mk(p.Name+".row", ArrS(IntS, seqElemSort(kind)))
			o := mk(p.Name+".off", IntS)
			env.vars[p.Name] = &CV{K: CSeq, Row: r, Off: o}
			vars = append(vars, r, o)
		}
	}
	return env, vars
}

func (lib *SpecLib) build() error {
	for _, n := range lib.Order {
		f := lib.Funs[n]
		if f.Body == nil {
			continue
		}
		env, vars := lib.paramEnv(f.Params, "a!"+f.Name+"!", false)
		f.ParamVars = vars
		cv, err := env.safeEval(f.Body)
		if err != nil {
			return fmt.Errorf("%s: spec fn %s: %v", f.Where, f.Name, err)
		}
		var t *Term
		switch {
		case f.RetSort == IntS:
			t = cv.asInt()
		case f.RetSort == BoolS:
			t = cv.boolTerm()
		case f.RetSort.K == SBV:
			t = cv.asBV(f.RetSort.W)
		default:
			t = cv.T
		}
		f.BodyTerm = t
		f.Deps = map[string]bool{}
		ord, _ := collect([]*Term{t})
		for _, x := range ord {
			if x.Op == "app" {
				if g := lib.bySMT(x.Name); g != nil {
					f.Deps[g.Name] = true
				}
			}
		}
	}
	return nil
}

var smtIndex map[string]*SpecFun

func (lib *SpecLib) bySMT(n string) *SpecFun {
	if smtIndex == nil || len(smtIndex) != len(lib.Funs) {
		smtIndex = map[string]*SpecFun{}
		for _, f := range lib.Funs {
			smtIndex[f.SMTName] = f
		}
	}
	return smtIndex[n]
}

// prelude: definitions needed by the given terms; returns SMT text plus
// instance axioms for recursive functions (fuel-bounded unfolding).
func (lib *SpecLib) prelude(terms []*Term, opaque map[string]bool, fuel map[string]int) (string, []*Term) {
	needed := map[string]bool{}
	var axioms []*Term
	unfolded := map[*Term]bool{}
	var scan func(ts []*Term, depth int)
	scan = func(ts []*Term, depth int) {
		ord, _ := collect(ts)
		var newAx []*Term
		for _, x := range ord {
			if x.Op != "app" {
				continue
			}
			f := lib.bySMT(x.Name)
			if f == nil {
				continue
			}
			lib.need(f.Name, needed, opaque)
			if f.Rec && f.BodyTerm != nil && !opaque[f.Name] && x.hasB && depth == 0 && !unfolded[x] {
				// occurrence under a binder: one unfolding, quantified over the bound variables it mentions
				unfolded[x] = true
				m := map[*Term]*Term{}
				for i, pv := range f.ParamVars {
					m[pv] = x.Args[i]
				}
				if bs := freeBounds(x); len(bs) > 0 {
					axioms = append(axioms, ForallPat(bs, Eq(x, Subst(f.BodyTerm, m)), x))
				}
			}
			if f.Rec && f.BodyTerm != nil && !opaque[f.Name] && !x.hasB {
				fl := 1
				if k, ok := fuel[f.Name]; ok {
					fl = 1 + k
				}
				if depth < fl && !unfolded[x] {
					unfolded[x] = true
					m := map[*Term]*Term{}
					for i, pv := range f.ParamVars {
						m[pv] = x.Args[i]
					}
					newAx = append(newAx, Eq(x, Subst(f.BodyTerm, m)))
				}
			}
		}
		if len(newAx) > 0 {
			axioms = append(axioms, newAx...)
			scan(newAx, depth+1)
		}
	}
	scan(terms, 0)
	var sb strings.Builder
	for _, n := range lib.Order {
		if !needed[n] {
			continue
		}
		f := lib.Funs[n]
		var ss []string
		for _, p := range f.Params {
			for _, s := range specParamSorts(p) {
				ss = append(ss, s.String())
			}
		}
		if f.BodyTerm == nil || f.Rec || opaque[n] {
			fmt.Fprintf(&sb, "(declare-fun %s (%s) %s)\n", f.SMTName, strings.Join(ss, " "), f.RetSort)
			continue
		}
		var ps []string
		for _, v := range f.ParamVars {
			ps = append(ps, fmt.Sprintf("(%s %s)", v.Name, v.S))
		}
		fmt.Fprintf(&sb, "(define-fun %s (%s) %s %s)\n", f.SMTName, strings.Join(ps, " "), f.RetSort, f.BodyTerm.String())
	}
	return sb.String(), axioms
}

func (lib *SpecLib) need(n string, needed, opaque map[string]bool) {
	if needed[n] {
		return
	}
	needed[n] = true
	f := lib.Funs[n]
	if opaque[n] && !f.Rec {
		return
	}
	if opaque[n] {
		return
	}
	for d := range f.Deps {
		lib.need(d, needed, opaque)
	}
}


// expandApps replaces applications of the named non-recursive spec functions by their bodies.
func (lib *SpecLib) expandApps(t *Term, names map[string]bool) *Term {
	memo := map[int]*Term{}
	var rec func(x *Term) *Term
	rec = func(x *Term) *Term {
		if len(x.Args) == 0 {
			return x
		}
		if r, ok := memo[x.id]; ok {
			return r
		}
		args := make([]*Term, len(x.Args))
		ch := false
		for i, a := range x.Args {
			args[i] = rec(a)
			if args[i] != a {
				ch = true
			}
		}
		r := x
		if ch {
			r = rebuild(x, args)
		}
		if r.Op == "app" {
			if f := lib.bySMT(r.Name); f != nil && names[f.Name] && !f.Rec && f.BodyTerm != nil && len(f.ParamVars) == len(r.Args) {
				m := map[*Term]*Term{}
				for i, pv := range f.ParamVars {
					m[pv] = r.Args[i]
				}
				r = rec(Subst(f.BodyTerm, m))
			}
		}
		memo[x.id] = r
		return r
	}
	return rec(t)
}
