// inst.go: arithmetic-aware instantiation of quantified facts.
//
// Solvers match quantifier patterns syntactically, and a pattern such as
// (select row (+ off (* 2 k))) contains interpreted arithmetic, so the facts
// that matter most here — "for all k, element k of this slice ..." — are often
// never instantiated at the index a later access uses. govc therefore
// instantiates them itself: for a quantified formula Q = (forall k. B) with an
// integer bound variable occurring in an array index  I[k] = base + c*k, and a
// ground access (select A J) of the same array A elsewhere in the query, it
// solves J = I[k] for k syntactically and adds the tautology  Q => B[k := t].
package main

import "math/big"

// splitIndex: write index term idx as rest + c*k for the bound variable k (c > 0); ok=false if k does not occur linearly.
func splitIndex(idx, k *Term) (rest *Term, c *big.Int, ok bool) {
	var addends []*Term
	kc := new(big.Int)
	konst := new(big.Int)
	addends = addendsOf(idx, nil, konst)
	c = new(big.Int)
	restT := IntBig(konst)
	found := false
	for _, a := range addends {
		switch {
		case a == k:
			c.Add(c, big.NewInt(1))
			found = true
		case a.Op == "*" && a.Args[0].Op == "int" && a.Args[1] == k:
			c.Add(c, a.Args[0].V)
			found = true
		default:
			if a.hasB && mentionsTerm(a, k) {
				return nil, nil, false
			}
			restT = Add(restT, a)
		}
	}
	_ = kc
	if !found || c.Sign() <= 0 {
		return nil, nil, false
	}
	return restT, c, true
}

func addendsOf(t *Term, out []*Term, k *big.Int) []*Term { return addends(t, out, k) }

func mentionsTerm(t, x *Term) bool {
	if t == x {
		return true
	}
	for _, a := range t.Args {
		if a.hasB && mentionsTerm(a, x) {
			return true
		}
	}
	return false
}

// solveFor: t with rest + c*t == j, if it can be read off syntactically.
func solveFor(j, rest *Term, c *big.Int) (*Term, bool) {
	d := Sub(j, rest)
	if c.Cmp(big.NewInt(1)) == 0 {
		return d, true
	}
	// d must be c*u (+ c*const)
	base, kk := linView(d)
	q, r := new(big.Int).QuoRem(kk, c, new(big.Int))
	if r.Sign() != 0 {
		return nil, false
	}
	if base == nil {
		return IntBig(q), true
	}
	if base.Op == "*" && base.Args[0].Op == "int" && base.Args[0].V.Cmp(c) == 0 {
		return Add(base.Args[1], IntBig(q)), true
	}
	return nil, false
}

func instantiateQuantifiers(asserts []*Term) []*Term {
	var out []*Term
	seen := map[[2]int]bool{}
	total := 0
	for round := 0; round < 2; round++ {
		all := append(append([]*Term{}, asserts...), out...)
		ord, _ := collect(all)
		// ground selects by array term
		ground := map[*Term][]*Term{}
		var quants []*Term
		for _, t := range ord {
			switch t.Op {
			case "select":
				if !t.hasB && t.Args[1].S == IntS {
					ground[t.Args[0]] = append(ground[t.Args[0]], t.Args[1])
				}
			case "forall":
				if !t.hasB && len(t.Bound) == 1 && t.Bound[0].S == IntS {
					quants = append(quants, t)
				}
			}
		}
		added := 0
		for _, q := range quants {
			k := q.Bound[0]
			body := q.Args[0]
			// index patterns in the body
			bo, _ := collect([]*Term{body})
			type pat struct {
				arr  *Term
				rest *Term
				c    *big.Int
			}
			var pats []pat
			for _, s := range bo {
				if s.Op != "select" || s.Args[0].hasB || !s.Args[1].hasB {
					continue
				}
				rest, c, ok := splitIndex(s.Args[1], k)
				if !ok || rest.hasB {
					continue
				}
				pats = append(pats, pat{s.Args[0], rest, c})
			}
			for _, p := range pats {
				for _, j := range ground[p.arr] {
					t, ok := solveFor(j, p.rest, p.c)
					if !ok {
						continue
					}
					key := [2]int{q.id, t.id}
					if seen[key] {
						continue
					}
					seen[key] = true
					if total >= 600 {
						return out
					}
					total++
					added++
					out = append(out, Implies(q, Subst(body, map[*Term]*Term{k: t})))
				}
			}
		}
		if added == 0 {
			break
		}
	}
	return out
}
