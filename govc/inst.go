// inst.go: arithmetic-aware instantiation of quantified facts.
//
// Solvers match quantifier patterns syntactically, and a pattern such as
// (select row (+ off (* 2 k))) contains interpreted arithmetic, so the facts
// that matter most here — "for all k, element k of this slice ..." — are often
// never instantiated at the index a later access uses. govc therefore
// instantiates them itself: for a quantified formula Q = (forall k. B) with an
// integer bound variable occurring in an array index  I[k] = base + c*k, and a
// ground access (select A J) of the same array A elsewhere in the query, it
// solves J = I[k] for k syntactically and adds the tautology  Q => B[k := t].
package main

import "math/big"

// splitIndex: write index term idx as rest + c*k for the bound variable k (c > 0); ok=false if k does not occur linearly.
func splitIndex(idx, k *Term) (rest *Term, c *big.Int, ok bool) {
	var addends []*Term
	kc := new(big.Int)
	konst := new(big.Int)
	addends = addendsOf(idx, nil, konst)
	c = new(big.Int)
	restT := IntBig(konst)
	found := false
	for _, a := range addends {
		switch {
		case a == k:
			c.Add(c, big.NewInt(1))
			found = true
		case a.Op == "*" && a.Args[0].Op == "int" && a.Args[1] == k:
			c.Add(c, a.Args[0].V)
			found = true
		default:
			if a.hasB && mentionsTerm(a, k) {
				return nil, nil, false
			}
			restT = Add(restT, a)
		}
	}
	_ = kc
	if !found || c.Sign() <= 0 {
		return nil, nil, false
	}
	return restT, c, true
}

func addendsOf(t *Term, out []*Term, k *big.Int) []*Term { return addends(t, out, k) }

func mentionsTerm(t, x *Term) bool {
	if t == x {
		return true
	}
	for _, a := range t.Args {
		if a.hasB && mentionsTerm(a, x) {
			return true
		}
	}
	return false
}

// solveFor: t with rest + c*t == j, if it can be read off syntactically.
func solveFor(j, rest *Term, c *big.Int) (*Term, bool) {
	d := Sub(j, rest)
	if c.Cmp(big.NewInt(1)) == 0 {
		return d, true
	}
	// d must be c*u (+ c*const)
	base, kk := linView(d)
	q, r := new(big.Int).QuoRem(kk, c, new(big.Int))
	if r.Sign() != 0 {
		return nil, false
	}
	if base == nil {
		return IntBig(q), true
	}
	if base.Op == "*" && base.Args[0].Op == "int" && base.Args[0].V.Cmp(c) == 0 {
		return Add(base.Args[1], IntBig(q)), true
	}
	return nil, false
}

func instantiateQuantifiers(asserts []*Term, useAliases bool) []*Term {
	var out []*Term
	seen := map[[2]int]bool{}
	total := 0
	for round := 0; round < 2; round++ {
		all := append(append([]*Term{}, asserts...), out...)
		ord, _ := collect(all)
		// ground selects by array term
		ground := map[*Term][]*Term{}
		var quants []*Term
		var bvQuants []*Term
		bvIdx := map[*Sort][]*Term{}
		groundApps := map[string][]*Term{}
		added := 0
		// arrays asserted equal (snapshots bound by lemma functions): (= A B), possibly under a guard
		arrayAliases := map[*Term][]*Term{}
		aliasBusy := map[*Term]bool{}
		for _, t := range ord {
			if useAliases && t.Op == "=" && len(t.Args) == 2 && !t.hasB && t.Args[0].S != nil && t.Args[0].S.K == SArray && t.Args[0].S == t.Args[1].S {
				arrayAliases[t.Args[0]] = append(arrayAliases[t.Args[0]], t.Args[1])
				arrayAliases[t.Args[1]] = append(arrayAliases[t.Args[1]], t.Args[0])
			}
		}
		for _, t := range ord {
			switch t.Op {
			case "select":
				if !t.hasB && t.Args[1].S == IntS {
					// a read of a store chain (or a merge of arrays) is, for all other indices, a read of the arrays below it
					idxs := iteVariants(t.Args[1])
					var reg func(a *Term, depth int)
					reg = func(a *Term, depth int) {
						ground[a] = append(ground[a], idxs...)
						// an array asserted equal to this one is read at the same indices
						if depth <= 8 {
							for _, al := range arrayAliases[a] {
								if !aliasBusy[al] {
									aliasBusy[al] = true
									reg(al, depth+1)
									aliasBusy[al] = false
								}
							}
						}
						if depth > 8 {
							return
						}
						switch a.Op {
						case "store":
							reg(a.Args[0], depth+1)
						case "ite":
							reg(a.Args[1], depth+1)
							reg(a.Args[2], depth+1)
						case "select":
							// a row selected at a merged reference: it is one of the rows of the merged references
							if len(a.Args) == 2 && a.Args[1].Op == "ite" && !a.Args[1].hasB {
								reg(Select(a.Args[0], a.Args[1].Args[1]), depth+1)
								reg(Select(a.Args[0], a.Args[1].Args[2]), depth+1)
							}
							// a row read from an updated heap at a reference not known to differ from the updated one:
							// it is the stored row or the row of the heap below
							if len(a.Args) == 2 && a.Args[0].Op == "store" && !a.Args[0].hasB && !a.Args[1].hasB {
								reg(a.Args[0].Args[2], depth+1)
								reg(Select(a.Args[0].Args[0], a.Args[1]), depth+1)
							}
						}
					}
					reg(t.Args[0], 0)
				}
			case "forall":
				if !t.hasB && len(t.Bound) == 1 && t.Bound[0].S == IntS {
					quants = append(quants, t)
				}
				if !t.hasB && len(t.Bound) == 1 && t.Bound[0].S.K == SBV {
					bvQuants = append(bvQuants, t)
				}
			case "bv2nat":
				if !t.hasB {
					bvIdx[t.Args[0].S] = append(bvIdx[t.Args[0].S], t.Args[0])
				}
			case "app":
				if !t.hasB {
					groundApps[t.Name] = append(groundApps[t.Name], t)
				}
			}
		}
		// quantified facts that apply an uninterpreted function directly to the bound variable, f(a, k, b):
		// instantiate at every ground application f(a, t, b) with the same other arguments
		for _, q := range quants {
			k := q.Bound[0]
			bo, _ := collect([]*Term{q.Args[0]})
			for _, p := range bo {
				if p.Op != "app" {
					continue
				}
				pos := -1
				okPat := true
				for i, a := range p.Args {
					if a == k {
						if pos >= 0 {
							okPat = false
						}
						pos = i
					} else if a.hasB {
						okPat = false
					}
				}
				if !okPat || pos < 0 {
					continue
				}
				for _, g := range groundApps[p.Name] {
					if len(g.Args) != len(p.Args) {
						continue
					}
					same := true
					for i := range g.Args {
						if i != pos && g.Args[i] != p.Args[i] {
							same = false
						}
					}
					if !same || g.Args[pos].S != k.S {
						continue
					}
					t := g.Args[pos]
					key := [2]int{q.id, t.id}
					if seen[key] || total >= 600 {
						continue
					}
					seen[key] = true
					total++
					added++
					out = append(out, Implies(q, Subst(q.Args[0], map[*Term]*Term{k: t})))
				}
			}
		}
		// quantifiers over a bit-vector used as an index (select A (+ off (bv2nat k))): instantiate at the
		// ground bit-vectors whose integer value occurs in the query
		for _, q := range bvQuants {
			k := q.Bound[0]
			uses := false
			bo, _ := collect([]*Term{q.Args[0]})
			for _, s := range bo {
				if s.Op == "bv2nat" && s.Args[0] == k {
					uses = true
				}
			}
			if !uses {
				continue
			}
			n := 0
			for _, x := range bvIdx[k.S] {
				key := [2]int{q.id, x.id}
				if seen[key] || n >= 16 || total >= 600 {
					continue
				}
				seen[key] = true
				n++
				total++
				out = append(out, Implies(q, Subst(q.Args[0], map[*Term]*Term{k: x})))
			}
		}
		for _, q := range quants {
			k := q.Bound[0]
			body := q.Args[0]
			// index patterns in the body
			bo, _ := collect([]*Term{body})
			type pat struct {
				arr  *Term
				rest *Term
				c    *big.Int
			}
			var pats []pat
			for _, s := range bo {
				if s.Op != "select" || s.Args[0].hasB || !s.Args[1].hasB {
					continue
				}
				rest, c, ok := splitIndex(s.Args[1], k)
				if !ok || rest.hasB {
					continue
				}
				pats = append(pats, pat{s.Args[0], rest, c})
			}
			for _, p := range pats {
				for _, j := range ground[p.arr] {
					t, ok := solveFor(j, p.rest, p.c)
					if !ok {
						continue
					}
					key := [2]int{q.id, t.id}
					if seen[key] {
						continue
					}
					seen[key] = true
					if total >= 600 {
						return out
					}
					total++
					added++
					out = append(out, Implies(q, Subst(body, map[*Term]*Term{k: t})))
				}
			}
		}
		if added == 0 {
			break
		}
	}
	return out
}

// iteVariants: an index  ite(c, a, b) + rest  is, depending on c, one of  a + rest  and  b + rest:
// all of them are offered to the syntactic matcher (at most two conditionals are split).
func iteVariants(idx *Term) []*Term {
	out := []*Term{idx}
	konst := new(big.Int)
	ads := addends(idx, nil, konst)
	split := 0
	for i, a := range ads {
		if a.Op != "ite" || a.hasB || split >= 2 {
			continue
		}
		split++
		var next []*Term
		for _, br := range []*Term{a.Args[1], a.Args[2]} {
			sum := IntBig(konst)
			for j, b := range ads {
				if j == i {
					sum = Add(sum, br)
				} else {
					sum = Add(sum, b)
				}
			}
			next = append(next, sum)
		}
		out = append(out, next...)
	}
	return out
}
