// Package main: govc — a verification-condition generator for a subset of Go
// over go/ssa, discharging obligations with z3 / cvc5.
//
// term.go: hash-consed SMT terms with light simplification and DAG printing.
package main

import (
	"fmt"
	"math/big"
	"sort"
	"strings"
)

type SortKind int

const (
	SBool SortKind = iota
	SInt
	SBV
	SArray
	SFP // IEEE binary64
)

type Sort struct {
	K    SortKind
	W    int
	Idx  *Sort
	Elem *Sort
	str  string
}

var sortTab = map[string]*Sort{}

func mkSort(s *Sort) *Sort {
	switch s.K {
	case SBool:
		s.str = "Bool"
	case SInt:
		s.str = "Int"
	case SBV:
		s.str = fmt.Sprintf("(_ BitVec %d)", s.W)
	case SArray:
		s.str = fmt.Sprintf("(Array %s %s)", s.Idx.str, s.Elem.str)
	case SFP:
		s.str = "(_ FloatingPoint 11 53)"
	}
	if o, ok := sortTab[s.str]; ok {
		return o
	}
	sortTab[s.str] = s
	return s
}

var (
	BoolS = mkSort(&Sort{K: SBool})
	IntS  = mkSort(&Sort{K: SInt})
	FPS   = mkSort(&Sort{K: SFP})
)

func BVS(w int) *Sort          { return mkSort(&Sort{K: SBV, W: w}) }
func ArrS(i, e *Sort) *Sort    { return mkSort(&Sort{K: SArray, Idx: i, Elem: e}) }
func (s *Sort) String() string { return s.str }

// Term is an immutable, hash-consed SMT term.
type Term struct {
	id    int
	Op    string // "var", "int", "bv", "true", "false", SMT operator name, "forall", "exists", "bound"
	Name  string // var / bound / uninterpreted function name / indexed op text
	Args  []*Term
	S     *Sort
	V     *big.Int // literal value for int / bv
	Bound []*Term  // bound variables of quantifier
	hasB  bool     // mentions a bound variable (cannot be hoisted)
	Pat   [][]*Term
}

type TermPool struct {
	tab   map[string]*Term
	n     int
	decls map[string]string // name -> declaration text (consts and funs)
	order []string
}

var P = &TermPool{tab: map[string]*Term{}, decls: map[string]string{}}

func (p *TermPool) intern(t *Term) *Term {
	var sb strings.Builder
	sb.WriteString(t.Op)
	sb.WriteByte('|')
	sb.WriteString(t.Name)
	sb.WriteByte('|')
	sb.WriteString(t.S.str)
	if t.V != nil {
		sb.WriteByte('|')
		sb.WriteString(t.V.String())
	}
	for _, a := range t.Args {
		fmt.Fprintf(&sb, ",%d", a.id)
	}
	for _, b := range t.Bound {
		fmt.Fprintf(&sb, ";%d", b.id)
	}
	k := sb.String()
	if o, ok := p.tab[k]; ok {
		return o
	}
	p.n++
	t.id = p.n
	for _, a := range t.Args {
		if a.hasB {
			t.hasB = true
		}
	}
	if t.Op == "bound" {
		t.hasB = true
	}
	p.tab[k] = t
	return t
}

// ---- leaves

func Var(name string, s *Sort) *Term {
	name = mangle(name)
	if _, ok := P.decls[name]; !ok {
		P.decls[name] = fmt.Sprintf("(declare-const %s %s)", name, s)
		P.order = append(P.order, name)
	}
	return P.intern(&Term{Op: "var", Name: name, S: s})
}

var freshN int

func Fresh(prefix string, s *Sort) *Term {
	freshN++
	return Var(fmt.Sprintf("%s!%d", prefix, freshN), s)
}

func BoundVar(name string, s *Sort) *Term {
	freshN++
	return P.intern(&Term{Op: "bound", Name: mangle(fmt.Sprintf("b!%s!%d", name, freshN)), S: s})
}

func mangle(s string) string {
	var sb strings.Builder
	for _, r := range s {
		switch {
		case r >= 'a' && r <= 'z', r >= 'A' && r <= 'Z', r >= '0' && r <= '9', r == '_', r == '!', r == '.', r == '$':
			sb.WriteRune(r)
		default:
			fmt.Fprintf(&sb, "_%x_", r)
		}
	}
	out := sb.String()
	if !strings.Contains(out, "!") {
		out = "v!" + out
	}
	return out
}

// DeclareFun registers an uninterpreted function.
func DeclareFun(name string, args []*Sort, ret *Sort) string {
	name = mangle(name)
	if _, ok := P.decls[name]; !ok {
		as := make([]string, len(args))
		for i, a := range args {
			as[i] = a.str
		}
		P.decls[name] = fmt.Sprintf("(declare-fun %s (%s) %s)", name, strings.Join(as, " "), ret)
		P.order = append(P.order, name)
	}
	return name
}

func App(fname string, ret *Sort, args ...*Term) *Term {
	return P.intern(&Term{Op: "app", Name: fname, Args: args, S: ret})
}

var (
	True  = P.intern(&Term{Op: "true", S: BoolS})
	False = P.intern(&Term{Op: "false", S: BoolS})
)

func BoolT(b bool) *Term {
	if b {
		return True
	}
	return False
}

func IntLit(v int64) *Term       { return IntBig(big.NewInt(v)) }
func IntBig(v *big.Int) *Term    { return P.intern(&Term{Op: "int", S: IntS, V: new(big.Int).Set(v)}) }
func BVLit(v uint64, w int) *Term { return BVBig(new(big.Int).SetUint64(v), w) }
func BVBig(v *big.Int, w int) *Term {
	m := new(big.Int).Lsh(big.NewInt(1), uint(w))
	x := new(big.Int).Mod(v, m)
	return P.intern(&Term{Op: "bv", S: BVS(w), V: x})
}

func (t *Term) IsLit() bool  { return t.Op == "int" || t.Op == "bv" || t.Op == "true" || t.Op == "false" }
func (t *Term) IsTrue() bool { return t == True }
func (t *Term) IsFalse() bool {
	return t == False
}
func (t *Term) Int64() (int64, bool) {
	if t.Op == "int" && t.V.IsInt64() {
		return t.V.Int64(), true
	}
	return 0, false
}

// ---- boolean

func Not(a *Term) *Term {
	if a == True {
		return False
	}
	if a == False {
		return True
	}
	if a.Op == "not" {
		return a.Args[0]
	}
	return P.intern(&Term{Op: "not", Args: []*Term{a}, S: BoolS})
}

func And(as ...*Term) *Term {
	var out []*Term
	seen := map[int]bool{}
	for _, a := range as {
		if a == False {
			return False
		}
		if a == True || seen[a.id] {
			continue
		}
		if a.Op == "and" {
			for _, b := range a.Args {
				if !seen[b.id] {
					seen[b.id] = true
					out = append(out, b)
				}
			}
			continue
		}
		seen[a.id] = true
		out = append(out, a)
	}
	for _, a := range out {
		if a.Op == "not" && seen[a.Args[0].id] {
			return False
		}
	}
	if len(out) == 0 {
		return True
	}
	if len(out) == 1 {
		return out[0]
	}
	return P.intern(&Term{Op: "and", Args: out, S: BoolS})
}

func Or(as ...*Term) *Term {
	var out []*Term
	seen := map[int]bool{}
	for _, a := range as {
		if a == True {
			return True
		}
		if a == False || seen[a.id] {
			continue
		}
		if a.Op == "or" {
			for _, b := range a.Args {
				if !seen[b.id] {
					seen[b.id] = true
					out = append(out, b)
				}
			}
			continue
		}
		seen[a.id] = true
		out = append(out, a)
	}
	for _, a := range out {
		if a.Op == "not" && seen[a.Args[0].id] {
			return True
		}
	}
	if len(out) == 0 {
		return False
	}
	if len(out) == 1 {
		return out[0]
	}
	return P.intern(&Term{Op: "or", Args: out, S: BoolS})
}

func Implies(a, b *Term) *Term {
	if a == True {
		return b
	}
	if a == False || b == True {
		return True
	}
	if b == False {
		return Not(a)
	}
	return P.intern(&Term{Op: "=>", Args: []*Term{a, b}, S: BoolS})
}

func Ite(c, a, b *Term) *Term {
	if c == True {
		return a
	}
	if c == False {
		return b
	}
	if a == b {
		return a
	}
	if a.S != b.S {
		panic(fmt.Sprintf("ite sort mismatch %s vs %s", a.S, b.S))
	}
	if a.S == BoolS {
		if a == True && b == False {
			return c
		}
		if a == False && b == True {
			return Not(c)
		}
		if a == True {
			return Or(c, b)
		}
		if b == False {
			return And(c, a)
		}
		if a == False {
			return And(Not(c), b)
		}
		if b == True {
			return Or(Not(c), a)
		}
	}
	return P.intern(&Term{Op: "ite", Args: []*Term{c, a, b}, S: a.S})
}

// linear view of an Int term: base + k
func linView(t *Term) (*Term, *big.Int) {
	if t.Op == "int" {
		return nil, t.V
	}
	if t.Op == "+" && len(t.Args) == 2 && t.Args[1].Op == "int" {
		return t.Args[0], t.Args[1].V
	}
	return t, big.NewInt(0)
}

// Allocation-order knowledge used to decide reference disequalities
// syntactically: nextParent[N] is an earlier allocation counter with
// N >= nextParent[N] (asserted unguarded when N is created); refBelow[r] = N
// records the unguarded fact r < N for a reference variable r.
var (
	nextParent = map[*Term]*Term{}
	refBelow   = map[*Term]*Term{}
	nextRoot   *Term
)

func isNextVar(t *Term) bool {
	if t == nil {
		return false
	}
	_, ok := nextParent[t]
	return ok || t == nextRoot
}

func nextAncestorOrSelf(anc, n *Term) bool {
	for i := 0; n != nil && i < 10000; i++ {
		if n == anc {
			return true
		}
		n = nextParent[n]
	}
	return false
}

// refsDistinct: a and b (Int terms) denote provably different references.
func refsDistinct(a, b *Term) bool {
	ba, ka := linView(a)
	bb, kb := linView(b)
	chk := func(ba *Term, ka *big.Int, bb *Term, kb *big.Int) bool {
		if !isNextVar(bb) || kb.Sign() < 0 {
			return false
		}
		if ba == nil { // literal: globals/constants are <= 0, allocation counters are > 0
			return ka.Sign() <= 0
		}
		if n, ok := refBelow[ba]; ok && ka.Sign() <= 0 {
			return nextAncestorOrSelf(n, bb)
		}
		return false
	}
	return chk(ba, ka, bb, kb) || chk(bb, kb, ba, ka)
}

func Eq(a, b *Term) *Term {
	if a == b {
		return True
	}
	if a.S != b.S {
		panic(fmt.Sprintf("eq sort mismatch %s vs %s (%s , %s)", a.S, b.S, a, b))
	}
	if a.IsLit() && b.IsLit() {
		return False // distinct interned literals of the same sort
	}
	if a.S == IntS {
		ba, ka := linView(a)
		bb, kb := linView(b)
		if ba == bb {
			return BoolT(ka.Cmp(kb) == 0)
		}
		if refsDistinct(a, b) {
			return False
		}
		if isConv(a) && b.Op == "int" {
			return cmpBridge("=", a, b.V, false)
		}
		if isConv(b) && a.Op == "int" {
			return cmpBridge("=", b, a.V, false)
		}
		if a.Op == b.Op && isConv(a) && a.Args[0].S == b.Args[0].S {
			return Eq(a.Args[0], b.Args[0])
		}
	}
	if a.S == BoolS {
		if a == True {
			return b
		}
		if b == True {
			return a
		}
		if a == False {
			return Not(b)
		}
		if b == False {
			return Not(a)
		}
	}
	if a.id > b.id {
		a, b = b, a
	}
	return P.intern(&Term{Op: "=", Args: []*Term{a, b}, S: BoolS})
}

// ---- Int arithmetic

// Sums are kept in a canonical form: (+ base k) where k is a literal and base
// is a single non-sum term or an n-ary sum of non-literal terms sorted by id,
// so that syntactically different groupings of the same sum are one term.
func addends(t *Term, out []*Term, k *big.Int) []*Term {
	switch {
	case t.Op == "int":
		k.Add(k, t.V)
	case t.Op == "+":
		for _, a := range t.Args {
			out = addends(a, out, k)
		}
	default:
		out = append(out, t)
	}
	return out
}

func Add(a, b *Term) *Term {
	if a.S != IntS || b.S != IntS {
		panic("Add: non-Int")
	}
	k := new(big.Int)
	ts := addends(a, nil, k)
	ts = addends(b, ts, k)
	// cancel x + (- x)
	if len(ts) > 1 {
		cnt := map[*Term]int{}
		for _, t := range ts {
			if t.Op == "neg" {
				cnt[t.Args[0]]--
			} else {
				cnt[t]++
			}
		}
		var out []*Term
		done := map[*Term]bool{}
		for _, t := range ts {
			base := t
			if t.Op == "neg" {
				base = t.Args[0]
			}
			if done[base] {
				continue
			}
			done[base] = true
			c := cnt[base]
			switch {
			case c == 0:
			case c > 0:
				if c == 1 {
					out = append(out, base)
				} else {
					out = append(out, mulLit(big.NewInt(int64(c)), base))
				}
			default:
				if c == -1 {
					out = append(out, P.intern(&Term{Op: "neg", Args: []*Term{base}, S: IntS}))
				} else {
					out = append(out, mulLit(big.NewInt(int64(c)), base))
				}
			}
		}
		ts = out
	}
	if len(ts) == 0 {
		return IntBig(k)
	}
	sort.Slice(ts, func(i, j int) bool { return ts[i].id < ts[j].id })
	var base *Term
	if len(ts) == 1 {
		base = ts[0]
	} else {
		base = P.intern(&Term{Op: "+", Args: ts, S: IntS})
	}
	return addK(base, k)
}
func mulLit(c *big.Int, x *Term) *Term {
	return P.intern(&Term{Op: "*", Args: []*Term{IntBig(c), x}, S: IntS})
}
func addK(base *Term, k *big.Int) *Term {
	if k.Sign() == 0 {
		return base
	}
	return P.intern(&Term{Op: "+", Args: []*Term{base, IntBig(k)}, S: IntS})
}
func Neg(a *Term) *Term {
	if a.Op == "int" {
		return IntBig(new(big.Int).Neg(a.V))
	}
	if a.Op == "neg" {
		return a.Args[0]
	}
	if a.Op == "+" {
		r := IntLit(0)
		for _, x := range a.Args {
			r = Add(r, Neg(x))
		}
		return r
	}
	return P.intern(&Term{Op: "neg", Args: []*Term{a}, S: IntS})
}
func Sub(a, b *Term) *Term {
	if a == b {
		return IntLit(0)
	}
	return Add(a, Neg(b))
}
func Mul(a, b *Term) *Term {
	if a.Op == "int" && b.Op == "int" {
		return IntBig(new(big.Int).Mul(a.V, b.V))
	}
	if b.Op == "int" {
		a, b = b, a
	}
	if a.Op == "int" {
		if a.V.Sign() == 0 {
			return IntLit(0)
		}
		if a.V.Cmp(big.NewInt(1)) == 0 {
			return b
		}
		if b.Op == "+" && a.V.Cmp(big.NewInt(-1)) == 0 {
			r := IntLit(0)
			for _, x := range b.Args {
				r = Add(r, Mul(a, x))
			}
			return r
		}
		// (no distribution of other literals over sums: `size * (i+1)` must keep
		// matching the pattern `size * k` of quantified element facts)
		if b.Op == "neg" {
			return Mul(IntBig(new(big.Int).Neg(a.V)), b.Args[0])
		}
		if b.Op == "*" && b.Args[0].Op == "int" {
			return Mul(IntBig(new(big.Int).Mul(a.V, b.Args[0].V)), b.Args[1])
		}
	}
	if a.Op != "int" && b.Op != "int" && a.id > b.id {
		a, b = b, a // canonical order of the factors of a nonlinear product
	}
	return P.intern(&Term{Op: "*", Args: []*Term{a, b}, S: IntS})
}

// IDiv / IMod are SMT-LIB euclidean div/mod (callers handle Go's truncation).
func IDiv(a, b *Term) *Term {
	if a.Op == "int" && b.Op == "int" && b.V.Sign() != 0 {
		q, m := new(big.Int).DivMod(a.V, b.V, new(big.Int))
		_ = m
		return IntBig(q)
	}
	return P.intern(&Term{Op: "div", Args: []*Term{a, b}, S: IntS})
}
func IMod(a, b *Term) *Term {
	if a.Op == "int" && b.Op == "int" && b.V.Sign() != 0 {
		_, m := new(big.Int).DivMod(a.V, b.V, new(big.Int))
		return IntBig(m)
	}
	return P.intern(&Term{Op: "mod", Args: []*Term{a, b}, S: IntS})
}

func Le(a, b *Term) *Term {
	ba, ka := linView(a)
	bb, kb := linView(b)
	if ba == bb {
		return BoolT(ka.Cmp(kb) <= 0)
	}
	if isConv(a) && b.Op == "int" {
		return cmpBridge("<=", a, b.V, false)
	}
	if isConv(b) && a.Op == "int" {
		return cmpBridge("<=", b, a.V, true)
	}
	return P.intern(&Term{Op: "<=", Args: []*Term{a, b}, S: BoolS})
}
func Lt(a, b *Term) *Term {
	ba, ka := linView(a)
	bb, kb := linView(b)
	if ba == bb {
		return BoolT(ka.Cmp(kb) < 0)
	}
	if isConv(a) && b.Op == "int" {
		return cmpBridge("<", a, b.V, false)
	}
	if isConv(b) && a.Op == "int" {
		return cmpBridge("<", b, a.V, true)
	}
	return P.intern(&Term{Op: "<", Args: []*Term{a, b}, S: BoolS})
}
func Ge(a, b *Term) *Term { return Le(b, a) }
func Gt(a, b *Term) *Term { return Lt(b, a) }

// ---- bit-vectors

func bvmask(w int) *big.Int {
	return new(big.Int).Sub(new(big.Int).Lsh(big.NewInt(1), uint(w)), big.NewInt(1))
}
func toSigned(v *big.Int, w int) *big.Int {
	if v.Bit(w-1) == 1 {
		return new(big.Int).Sub(v, new(big.Int).Lsh(big.NewInt(1), uint(w)))
	}
	return v
}

func BVOp(op string, a, b *Term) *Term {
	if a.S != b.S || a.S.K != SBV {
		panic(fmt.Sprintf("BVOp %s sort mismatch %s %s", op, a.S, b.S))
	}
	w := a.S.W
	if a.Op == "bv" && b.Op == "bv" {
		x, y := a.V, b.V
		r := new(big.Int)
		ok := true
		switch op {
		case "bvadd":
			r.Add(x, y)
		case "bvsub":
			r.Sub(x, y)
		case "bvmul":
			r.Mul(x, y)
		case "bvand":
			r.And(x, y)
		case "bvor":
			r.Or(x, y)
		case "bvxor":
			r.Xor(x, y)
		case "bvshl":
			if y.Cmp(big.NewInt(int64(w))) >= 0 {
				r.SetInt64(0)
			} else {
				r.Lsh(x, uint(y.Int64()))
			}
		case "bvlshr":
			if y.Cmp(big.NewInt(int64(w))) >= 0 {
				r.SetInt64(0)
			} else {
				r.Rsh(x, uint(y.Int64()))
			}
		case "bvashr":
			sx := toSigned(x, w)
			sh := uint(w)
			if y.Cmp(big.NewInt(int64(w))) < 0 {
				sh = uint(y.Int64())
			}
			r.Rsh(sx, sh)
		case "bvudiv":
			if y.Sign() == 0 {
				r.Set(bvmask(w))
			} else {
				r.Div(x, y)
			}
		case "bvurem":
			if y.Sign() == 0 {
				r.Set(x)
			} else {
				r.Mod(x, y)
			}
		default:
			ok = false
		}
		if ok {
			return BVBig(r, w)
		}
	}
	// (x + c1) +/- c2  ==>  x + (c1 +/- c2)   (modular arithmetic: always valid)
	if (op == "bvadd" || op == "bvsub") && b.Op == "bv" && (a.Op == "bvadd" || a.Op == "bvsub") && len(a.Args) == 2 {
		var x *Term
		c1 := new(big.Int)
		switch {
		case a.Args[1].Op == "bv":
			x = a.Args[0]
			c1.Set(a.Args[1].V)
			if a.Op == "bvsub" {
				c1.Neg(c1)
			}
		case a.Op == "bvadd" && a.Args[0].Op == "bv":
			x = a.Args[1]
			c1.Set(a.Args[0].V)
		}
		if x != nil {
			c := new(big.Int)
			if op == "bvadd" {
				c.Add(c1, b.V)
			} else {
				c.Sub(c1, b.V)
			}
			return BVOp("bvadd", x, BVBig(c, w))
		}
	}
	zero := a.Op == "bv" && a.V.Sign() == 0
	bzero := b.Op == "bv" && b.V.Sign() == 0
	switch op {
	case "bvadd", "bvor", "bvxor":
		if zero {
			return b
		}
		if bzero {
			return a
		}
	case "bvsub", "bvshl", "bvlshr", "bvashr":
		if bzero {
			return a
		}
	case "bvand":
		if zero || bzero {
			return BVLit(0, w)
		}
		if a.Op == "bv" && a.V.Cmp(bvmask(w)) == 0 {
			return b
		}
		if b.Op == "bv" && b.V.Cmp(bvmask(w)) == 0 {
			return a
		}
	}
	return P.intern(&Term{Op: op, Args: []*Term{a, b}, S: a.S})
}

func BVNot(a *Term) *Term {
	if a.Op == "bv" {
		return BVBig(new(big.Int).Xor(a.V, bvmask(a.S.W)), a.S.W)
	}
	return P.intern(&Term{Op: "bvnot", Args: []*Term{a}, S: a.S})
}
func BVNeg(a *Term) *Term {
	if a.Op == "bv" {
		return BVBig(new(big.Int).Neg(a.V), a.S.W)
	}
	return P.intern(&Term{Op: "bvneg", Args: []*Term{a}, S: a.S})
}

// BVCmp: op in bvult bvule bvslt bvsle (and g* variants by swapping)
func BVCmp(op string, a, b *Term) *Term {
	if a.S != b.S {
		panic(fmt.Sprintf("BVCmp %s sort mismatch %s %s", op, a.S, b.S))
	}
	switch op {
	case "bvugt":
		return BVCmp("bvult", b, a)
	case "bvuge":
		return BVCmp("bvule", b, a)
	case "bvsgt":
		return BVCmp("bvslt", b, a)
	case "bvsge":
		return BVCmp("bvsle", b, a)
	}
	if a.Op == "bv" && b.Op == "bv" {
		x, y := a.V, b.V
		if op[2] == 's' {
			x, y = toSigned(x, a.S.W), toSigned(y, a.S.W)
		}
		c := x.Cmp(y)
		if strings.HasSuffix(op, "lt") {
			return BoolT(c < 0)
		}
		return BoolT(c <= 0)
	}
	if a == b {
		return BoolT(strings.HasSuffix(op, "le"))
	}
	return P.intern(&Term{Op: op, Args: []*Term{a, b}, S: BoolS})
}

func Extract(hi, lo int, a *Term) *Term {
	if lo == 0 && hi == a.S.W-1 {
		return a
	}
	if a.Op == "bv" {
		return BVBig(new(big.Int).Rsh(a.V, uint(lo)), hi-lo+1)
	}
	if a.Op == "zero_extend" && hi < a.Args[0].S.W {
		return Extract(hi, lo, a.Args[0])
	}
	if a.Op == "zero_extend" && lo == 0 && hi >= a.Args[0].S.W {
		return ZeroExt(hi+1-a.Args[0].S.W, a.Args[0])
	}
	return P.intern(&Term{Op: "extract", Name: fmt.Sprintf("(_ extract %d %d)", hi, lo), Args: []*Term{a}, S: BVS(hi - lo + 1)})
}
func ZeroExt(n int, a *Term) *Term {
	if n == 0 {
		return a
	}
	if a.Op == "bv" {
		return BVBig(a.V, a.S.W+n)
	}
	if a.Op == "zero_extend" {
		return ZeroExt(n+a.S.W-a.Args[0].S.W, a.Args[0])
	}
	return P.intern(&Term{Op: "zero_extend", Name: fmt.Sprintf("(_ zero_extend %d)", n), Args: []*Term{a}, S: BVS(a.S.W + n)})
}
func SignExt(n int, a *Term) *Term {
	if n == 0 {
		return a
	}
	if a.Op == "bv" {
		return BVBig(toSigned(a.V, a.S.W), a.S.W+n)
	}
	return P.intern(&Term{Op: "sign_extend", Name: fmt.Sprintf("(_ sign_extend %d)", n), Args: []*Term{a}, S: BVS(a.S.W + n)})
}
func Concat(a, b *Term) *Term {
	if a.Op == "bv" && b.Op == "bv" {
		return BVBig(new(big.Int).Or(new(big.Int).Lsh(a.V, uint(b.S.W)), b.V), a.S.W+b.S.W)
	}
	return P.intern(&Term{Op: "concat", Args: []*Term{a, b}, S: BVS(a.S.W + b.S.W)})
}

// BV2Int: unsigned value of a bit-vector as Int.
func BV2Int(a *Term) *Term {
	if a.Op == "bv" {
		return IntBig(a.V)
	}
	if a.Op == "int2bv" {
		// not equal in general; keep
	}
	return P.intern(&Term{Op: "bv2nat", Args: []*Term{a}, S: IntS})
}

// BV2IntSigned: two's complement value (a distinct node so that mixed
// Int/bit-vector comparisons with literals can be turned into pure bit-vector ones).
func BV2IntSigned(a *Term) *Term {
	w := a.S.W
	if a.Op == "bv" {
		return IntBig(toSigned(a.V, w))
	}
	return P.intern(&Term{Op: "sbv2int", Args: []*Term{a}, S: IntS})
}

func litInSigned(v *big.Int, w int) bool {
	lo := new(big.Int).Neg(new(big.Int).Lsh(big.NewInt(1), uint(w-1)))
	hi := new(big.Int).Lsh(big.NewInt(1), uint(w-1))
	return v.Cmp(lo) >= 0 && v.Cmp(hi) < 0
}
func litInUnsigned(v *big.Int, w int) bool {
	return v.Sign() >= 0 && v.Cmp(new(big.Int).Lsh(big.NewInt(1), uint(w))) < 0
}

// cmpBridge: comparison of a converted bit-vector with an integer literal as a bit-vector comparison.
// op is "=", "<=", "<" with the conversion on the left (flip=false) or right (flip=true).
func cmpBridge(op string, conv *Term, lit *big.Int, flip bool) *Term {
	x := conv.Args[0]
	w := x.S.W
	signed := conv.Op == "sbv2int"
	in := litInUnsigned(lit, w)
	if signed {
		in = litInSigned(lit, w)
	}
	if !in {
		// literal outside the representable range: the comparison is constant
		below := lit.Sign() < 0
		if signed {
			below = lit.Cmp(big.NewInt(0)) < 0 && !litInSigned(lit, w)
		}
		switch op {
		case "=":
			return False
		default:
			// conv <= lit (or lit <= conv when flipped)
			if !flip {
				return BoolT(!below)
			}
			return BoolT(below)
		}
	}
	l := BVBig(lit, w)
	p := "bvu"
	if signed {
		p = "bvs"
	}
	switch op {
	case "=":
		return Eq(x, l)
	case "<=":
		if flip {
			return BVCmp(p+"le", l, x)
		}
		return BVCmp(p+"le", x, l)
	case "<":
		if flip {
			return BVCmp(p+"lt", l, x)
		}
		return BVCmp(p+"lt", x, l)
	}
	return nil
}

func isConv(t *Term) bool { return t.Op == "sbv2int" || t.Op == "bv2nat" }

// Int2BV: value mod 2^w.
func Int2BV(w int, a *Term) *Term {
	if a.Op == "int" {
		return BVBig(a.V, w)
	}
	if a.Op == "ite" {
		return Ite(a.Args[0], Int2BV(w, a.Args[1]), Int2BV(w, a.Args[2]))
	}
	if base, k := linView(a); base != nil && isConv(base) && k.Sign() != 0 {
		return BVOp("bvadd", Int2BV(w, base), BVBig(k, w))
	}
	if a.Op == "bv2nat" {
		x := a.Args[0]
		if x.S.W == w {
			return x
		}
		if x.S.W < w {
			return ZeroExt(w-x.S.W, x)
		}
		return Extract(w-1, 0, x)
	}
	if a.Op == "sbv2int" {
		x := a.Args[0]
		if x.S.W == w {
			return x
		}
		if x.S.W < w {
			return SignExt(w-x.S.W, x)
		}
		return Extract(w-1, 0, x)
	}
	return P.intern(&Term{Op: "int2bv", Name: fmt.Sprintf("(_ int2bv %d)", w), Args: []*Term{a}, S: BVS(w)})
}

// ---- arrays

func Select(a, i *Term) *Term {
	if a.S.K != SArray {
		panic("select on non-array " + a.String())
	}
	if a.S.Idx != i.S {
		panic(fmt.Sprintf("select idx sort %s vs %s", a.S.Idx, i.S))
	}
	for a.Op == "store" {
		e := Eq(a.Args[1], i)
		if e == True {
			return a.Args[2]
		}
		if e == False {
			a = a.Args[0]
			continue
		}
		break
	}
	if a.Op == "constarr" {
		return a.Args[0]
	}
	return P.intern(&Term{Op: "select", Args: []*Term{a, i}, S: a.S.Elem})
}
func Store(a, i, v *Term) *Term {
	if a.S.K != SArray || a.S.Idx != i.S || a.S.Elem != v.S {
		panic(fmt.Sprintf("store sort mismatch %s [%s] := %s", a.S, i.S, v.S))
	}
	if a.Op == "store" && Eq(a.Args[1], i) == True {
		return Store(a.Args[0], i, v)
	}
	return P.intern(&Term{Op: "store", Args: []*Term{a, i, v}, S: a.S})
}
func ConstArr(s *Sort, v *Term) *Term {
	return P.intern(&Term{Op: "constarr", Name: fmt.Sprintf("(as const %s)", s), Args: []*Term{v}, S: s})
}

// ---- quantifiers

func Forall(bound []*Term, body *Term) *Term {
	if body == True {
		return True
	}
	if !body.hasB {
		return body
	}
	t := P.intern(&Term{Op: "forall", Args: []*Term{body}, Bound: bound, S: BoolS})
	t.hasB = anyFreeBound(t)
	return t
}
func Exists(bound []*Term, body *Term) *Term {
	if body == False {
		return False
	}
	if !body.hasB {
		return body
	}
	t := P.intern(&Term{Op: "exists", Args: []*Term{body}, Bound: bound, S: BoolS})
	t.hasB = anyFreeBound(t)
	return t
}

func anyFreeBound(t *Term) bool {
	// free bound variables of a quantifier term: those of body minus t.Bound
	bs := map[*Term]bool{}
	var walk func(x *Term, scope map[*Term]bool)
	seen := map[int]bool{}
	walk = func(x *Term, scope map[*Term]bool) {
		if !x.hasB && x.Op != "forall" && x.Op != "exists" {
			return
		}
		if x.Op == "bound" {
			if !scope[x] {
				bs[x] = true
			}
			return
		}
		if x.Op == "forall" || x.Op == "exists" {
			ns := map[*Term]bool{}
			for k := range scope {
				ns[k] = true
			}
			for _, b := range x.Bound {
				ns[b] = true
			}
			walk(x.Args[0], ns)
			return
		}
		if len(scope) == 0 {
			if seen[x.id] {
				return
			}
			seen[x.id] = true
		}
		for _, a := range x.Args {
			walk(a, scope)
		}
	}
	walk(t, map[*Term]bool{})
	return len(bs) > 0
}

// ForallPat: universally quantified formula with an explicit single multi-pattern.
func ForallPat(bound []*Term, body *Term, pats ...*Term) *Term {
	if body == True {
		return True
	}
	t := P.intern(&Term{Op: "forall", Args: append([]*Term{body}, pats...), Bound: bound, S: BoolS})
	t.hasB = anyFreeBound(t)
	return t
}

// freeBounds: bound variables occurring free in t.
func freeBounds(t *Term) []*Term {
	var out []*Term
	seen := map[*Term]bool{}
	var walk func(x *Term, scope map[*Term]bool)
	walk = func(x *Term, scope map[*Term]bool) {
		if !x.hasB {
			return
		}
		if x.Op == "bound" {
			if !scope[x] && !seen[x] {
				seen[x] = true
				out = append(out, x)
			}
			return
		}
		if x.Op == "forall" || x.Op == "exists" {
			ns := map[*Term]bool{}
			for k := range scope {
				ns[k] = true
			}
			for _, b := range x.Bound {
				ns[b] = true
			}
			for _, a := range x.Args {
				walk(a, ns)
			}
			return
		}
		for _, a := range x.Args {
			walk(a, scope)
		}
	}
	walk(t, map[*Term]bool{})
	return out
}

// ---- FP (binary64), minimal

func FPOp(op string, s *Sort, args ...*Term) *Term {
	return P.intern(&Term{Op: "fp", Name: op, Args: args, S: s})
}

// ---- substitution (for contracts: bound var instantiation etc.)

func Subst(t *Term, m map[*Term]*Term) *Term {
	memo := map[int]*Term{}
	var rec func(x *Term) *Term
	rec = func(x *Term) *Term {
		if r, ok := m[x]; ok {
			return r
		}
		if len(x.Args) == 0 {
			return x
		}
		if r, ok := memo[x.id]; ok {
			return r
		}
		args := make([]*Term, len(x.Args))
		ch := false
		for i, a := range x.Args {
			args[i] = rec(a)
			if args[i] != a {
				ch = true
			}
		}
		var r *Term
		if !ch {
			r = x
		} else {
			r = rebuild(x, args)
		}
		memo[x.id] = r
		return r
	}
	return rec(t)
}

func rebuild(x *Term, a []*Term) *Term {
	switch x.Op {
	case "not":
		return Not(a[0])
	case "and":
		return And(a...)
	case "or":
		return Or(a...)
	case "=>":
		return Implies(a[0], a[1])
	case "ite":
		return Ite(a[0], a[1], a[2])
	case "=":
		return Eq(a[0], a[1])
	case "+":
		r := a[0]
		for _, y := range a[1:] {
			r = Add(r, y)
		}
		return r
	case "neg":
		return Neg(a[0])
	case "*":
		return Mul(a[0], a[1])
	case "div":
		return IDiv(a[0], a[1])
	case "mod":
		return IMod(a[0], a[1])
	case "<=":
		return Le(a[0], a[1])
	case "<":
		return Lt(a[0], a[1])
	case "select":
		return Select(a[0], a[1])
	case "store":
		return Store(a[0], a[1], a[2])
	case "bvult", "bvule", "bvslt", "bvsle":
		return BVCmp(x.Op, a[0], a[1])
	case "bvnot":
		return BVNot(a[0])
	case "bvneg":
		return BVNeg(a[0])
	case "bv2nat":
		return BV2Int(a[0])
	case "sbv2int":
		return BV2IntSigned(a[0])
	case "int2bv":
		return Int2BV(x.S.W, a[0])
	case "extract":
		var hi, lo int
		fmt.Sscanf(x.Name, "(_ extract %d %d)", &hi, &lo)
		return Extract(hi, lo, a[0])
	case "zero_extend":
		return ZeroExt(x.S.W-x.Args[0].S.W, a[0])
	case "sign_extend":
		return SignExt(x.S.W-x.Args[0].S.W, a[0])
	case "concat":
		return Concat(a[0], a[1])
	case "forall":
		if len(a) > 1 {
			return ForallPat(x.Bound, a[0], a[1:]...)
		}
		return Forall(x.Bound, a[0])
	case "exists":
		return Exists(x.Bound, a[0])
	}
	if strings.HasPrefix(x.Op, "bv") && len(a) == 2 {
		return BVOp(x.Op, a[0], a[1])
	}
	return P.intern(&Term{Op: x.Op, Name: x.Name, Args: a, S: x.S, V: x.V, Bound: x.Bound})
}

// ---- printing

func (t *Term) String() string {
	var sb strings.Builder
	printTerm(&sb, t, nil)
	return sb.String()
}

func litStr(t *Term) string {
	switch t.Op {
	case "int":
		if t.V.Sign() < 0 {
			return fmt.Sprintf("(- %s)", new(big.Int).Neg(t.V).String())
		}
		return t.V.String()
	case "bv":
		return fmt.Sprintf("(_ bv%s %d)", t.V.String(), t.S.W)
	}
	return t.Op
}

// printAbstract: render bit-vector multiplication and the Int<->BitVec
// conversions as uninterpreted functions (a sound weakening used as an extra
// portfolio variant; the bridge facts carry what is needed of their meaning).
var printAbstractMul bool
var absDecls = map[string]string{}

func printTerm(sb *strings.Builder, t *Term, named map[int]string) {
	if printAbstractMul {
		var fn string
		switch t.Op {
		case "bvmul":
			w := t.S.W
			fn = fmt.Sprintf("umul!%d", w)
			absDecls[fn] = fmt.Sprintf("(declare-fun %s ((_ BitVec %d) (_ BitVec %d)) (_ BitVec %d))", fn, w, w, w)
		case "bv2nat":
			w := t.Args[0].S.W
			fn = fmt.Sprintf("b2n!%d", w)
			absDecls[fn] = fmt.Sprintf("(declare-fun %s ((_ BitVec %d)) Int)", fn, w)
		case "sbv2int":
			w := t.Args[0].S.W
			fn = fmt.Sprintf("sb2i!%d", w)
			absDecls[fn] = fmt.Sprintf("(declare-fun %s ((_ BitVec %d)) Int)", fn, w)
		case "int2bv":
			w := t.S.W
			fn = fmt.Sprintf("i2b!%d", w)
			absDecls[fn] = fmt.Sprintf("(declare-fun %s (Int) (_ BitVec %d))", fn, w)
		}
		if fn != "" {
			if named != nil {
				if n, ok := named[t.id]; ok {
					sb.WriteString(n)
					return
				}
			}
			sb.WriteByte('(')
			sb.WriteString(fn)
			for _, a := range t.Args {
				sb.WriteByte(' ')
				printTerm(sb, a, named)
			}
			sb.WriteByte(')')
			return
		}
	}
	if named != nil {
		if n, ok := named[t.id]; ok {
			sb.WriteString(n)
			return
		}
	}
	switch t.Op {
	case "var", "bound":
		sb.WriteString(t.Name)
	case "int", "bv", "true", "false":
		sb.WriteString(litStr(t))
	case "app":
		if len(t.Args) == 0 {
			sb.WriteString(t.Name)
			return
		}
		sb.WriteByte('(')
		sb.WriteString(t.Name)
		for _, a := range t.Args {
			sb.WriteByte(' ')
			printTerm(sb, a, named)
		}
		sb.WriteByte(')')
	case "forall", "exists":
		sb.WriteByte('(')
		sb.WriteString(t.Op)
		sb.WriteString(" (")
		for _, b := range t.Bound {
			fmt.Fprintf(sb, "(%s %s)", b.Name, b.S)
		}
		sb.WriteString(") ")
		if len(t.Args) > 1 {
			sb.WriteString("(! ")
			printTerm(sb, t.Args[0], named)
			sb.WriteString(" :pattern (")
			for i, p := range t.Args[1:] {
				if i > 0 {
					sb.WriteByte(' ')
				}
				printTerm(sb, p, named)
			}
			sb.WriteString("))")
		} else {
			printTerm(sb, t.Args[0], named)
		}
		sb.WriteByte(')')
	case "neg":
		sb.WriteString("(- ")
		printTerm(sb, t.Args[0], named)
		sb.WriteByte(')')
	case "sbv2int":
		// (ite (bvslt x 0) (- (bv2nat x) 2^w) (bv2nat x))
		w := t.Args[0].S.W
		sb.WriteString("(ite (bvslt ")
		printTerm(sb, t.Args[0], named)
		fmt.Fprintf(sb, " (_ bv0 %d)) (- (bv2nat ", w)
		printTerm(sb, t.Args[0], named)
		fmt.Fprintf(sb, ") %s) (bv2nat ", new(big.Int).Lsh(big.NewInt(1), uint(w)).String())
		printTerm(sb, t.Args[0], named)
		sb.WriteString("))")
	case "extract", "zero_extend", "sign_extend", "int2bv", "constarr", "fp":
		sb.WriteByte('(')
		sb.WriteString(t.Name)
		for _, a := range t.Args {
			sb.WriteByte(' ')
			printTerm(sb, a, named)
		}
		sb.WriteByte(')')
	default:
		sb.WriteByte('(')
		sb.WriteString(t.Op)
		for _, a := range t.Args {
			sb.WriteByte(' ')
			printTerm(sb, a, named)
		}
		sb.WriteByte(')')
	}
}

// Script renders a satisfiability query for the conjunction of asserts:
// declarations actually used (relevance filter), shared sub-terms as
// define-funs, then the assertions.
type Script struct {
	Prelude []string // extra definitions (spec functions), already filtered
	Asserts []*Term
	GetVals []*Term
}

func collect(ts []*Term) (order []*Term, refs map[int]int) {
	refs = map[int]int{}
	seen := map[int]bool{}
	var walk func(t *Term)
	walk = func(t *Term) {
		refs[t.id]++
		if seen[t.id] {
			return
		}
		seen[t.id] = true
		for _, a := range t.Args {
			walk(a)
		}
		order = append(order, t)
	}
	for _, t := range ts {
		walk(t)
	}
	return
}

func (s *Script) Render(logic string, models bool) string {
	var sb strings.Builder
	all := append(append([]*Term{}, s.Asserts...), s.GetVals...)
	order, refs := collect(all)
	used := map[string]bool{}
	for _, t := range order {
		if t.Op == "var" || t.Op == "app" {
			used[t.Name] = true
		}
	}
	// prelude may mention declared functions by name
	pre := strings.Join(s.Prelude, "\n")
	if models {
		sb.WriteString("(set-option :produce-models true)\n")
	}
	if logic != "" {
		fmt.Fprintf(&sb, "(set-logic %s)\n", logic)
	}
	var names []string
	for _, n := range P.order {
		if used[n] {
			names = append(names, n)
		}
	}
	for _, n := range names {
		sb.WriteString(P.decls[n])
		sb.WriteByte('\n')
	}
	declPos := sb.Len()
	sb.WriteString(pre)
	if pre != "" {
		sb.WriteByte('\n')
	}
	named := map[int]string{}
	for _, t := range order {
		if refs[t.id] > 1 && len(t.Args) > 0 && !t.hasB {
			var tb strings.Builder
			printTerm(&tb, t, named)
			n := fmt.Sprintf("n!%d", t.id)
			fmt.Fprintf(&sb, "(define-fun %s () %s %s)\n", n, t.S, tb.String())
			named[t.id] = n
		}
	}
	for _, a := range s.Asserts {
		sb.WriteString("(assert ")
		printTerm(&sb, a, named)
		sb.WriteString(")\n")
	}
	sb.WriteString("(check-sat)\n")
	if models && len(s.GetVals) > 0 {
		sb.WriteString("(get-value (")
		for _, g := range s.GetVals {
			printTerm(&sb, g, named)
			sb.WriteByte(' ')
		}
		sb.WriteString("))\n")
	}
	out := sb.String()
	if printAbstractMul && len(absDecls) > 0 {
		var d strings.Builder
		for _, k := range sortedKeys(absDecls) {
			d.WriteString(absDecls[k])
			d.WriteByte('\n')
		}
		out = out[:declPos] + d.String() + out[declPos:]
	}
	return out
}

func sortedKeys[M ~map[string]V, V any](m M) []string {
	ks := make([]string, 0, len(m))
	for k := range m {
		ks = append(ks, k)
	}
	sort.Strings(ks)
	return ks
}
