// exec.go: symbolic execution of go/ssa functions into obligations.
package main

import (
	"sort"
	"fmt"
	"go/ast"
	"go/constant"
	"go/token"
	"go/types"
	"math/big"
	"os"
	"strings"

	"golang.org/x/tools/go/ssa"
)

type Obligation struct {
	Name   string
	Kind   string
	Fn     string
	Hyps   []*Term
	Goal   *Term
	Pos    string
	Desc   string
	Inputs []*Val // parameter values, for model extraction
	Unit   *Unit
	Opaque map[string]bool
	Fuel   map[string]int
	Trivial bool
	Cover  bool // a reachability/vacuity query: expected SAT
	UseLemmas []string
	Expand    map[string]bool // spec functions expanded in this query (lemma directive "expand")
	// rendered query (see isolate.go)
	built   bool
	q, qAbs string
	gv      []*Term
}

type Verifier struct {
	prog      *Program
	lib       *SpecLib
	finfo     map[*ssa.Function]*FuncInfo
	globals   map[*ssa.Global]int64
	strConsts map[string]int64
	nextNeg   int64
	typeTags  map[string]int64
	tagTypes  map[int64]types.Type
	axioms    []*Term
	constGlobals map[*ssa.Global]bool
	storedGlobals map[*ssa.Global]bool
	assumptions map[string]bool
	inlineDepthMax int
	sliceGlobalArr map[*ssa.Global]int64
	lemmaDeps map[string]bool // lemma functions that justify caller-only postconditions used so far
}

var theV *Verifier

func newVerifier(p *Program, lib *SpecLib) *Verifier {
	v := &Verifier{prog: p, lib: lib, finfo: map[*ssa.Function]*FuncInfo{}, globals: map[*ssa.Global]int64{}, strConsts: map[string]int64{},
		nextNeg: -1, typeTags: map[string]int64{}, tagTypes: map[int64]types.Type{}, assumptions: map[string]bool{}, inlineDepthMax: 6, sliceGlobalArr: map[*ssa.Global]int64{}, lemmaDeps: map[string]bool{}}
	theV = v
	v.scanFieldAddrs()
	v.scanGlobals()
	v.prescanKinds()
	return v
}

func (v *Verifier) info(fn *ssa.Function) *FuncInfo {
	fi := v.finfo[fn]
	if fi == nil {
		fi = analyze(fn)
		v.finfo[fn] = fi
	}
	return fi
}

func (v *Verifier) typeTag(t types.Type) int64 {
	k := types.TypeString(t, nil)
	if id, ok := v.typeTags[k]; ok {
		return id
	}
	id := int64(len(v.typeTags) + 1)
	v.typeTags[k] = id
	v.tagTypes[id] = t
	return id
}

func normTypeName(s string) string {
	// "bchutil.*AddressPubKeyHash" -> "*github.com/gcash/bchutil.AddressPubKeyHash"
	ptr := ""
	pk, nm := s, ""
	if i := strings.LastIndex(s, "."); i >= 0 {
		pk, nm = s[:i], s[i+1:]
	}
	if strings.HasPrefix(nm, "*") {
		ptr = "*"
		nm = nm[1:]
	}
	switch {
	case pk == "bchutil":
		pk = repoMod
	case pk == "builder":
		pk = repoMod + "/gcs/builder"
	case !strings.Contains(pk, "/") && !strings.Contains(pk, "."):
		// could be repo sub-package or stdlib
		pk2 := repoMod + "/" + pk
		if theV != nil && theV.prog.Prog.ImportedPackage(pk2) != nil {
			pk = pk2
		}
	}
	return ptr + pk + "." + nm
}

func typeByName(s string) types.Type {
	full := normTypeName(s)
	ptr := strings.HasPrefix(full, "*")
	full = strings.TrimPrefix(full, "*")
	i := strings.LastIndex(full, ".")
	pk := theV.prog.Prog.ImportedPackage(full[:i])
	if pk == nil {
		return nil
	}
	m := pk.Type(full[i+1:])
	if m == nil {
		return nil
	}
	var t types.Type = m.Type()
	if ptr {
		t = types.NewPointer(t)
	}
	return t
}

func typeTagByName(s string) int64 {
	t := typeByName(s)
	if t == nil {
		efail("unknown type %s", s)
	}
	return theV.typeTag(t)
}

// scanGlobals assigns negative refs to globals, finds globals that are never
// stored outside package init (constant tables) and records their contents.
func (v *Verifier) scanGlobals() {
	v.storedGlobals = map[*ssa.Global]bool{}
	v.constGlobals = map[*ssa.Global]bool{}
	for fn, _ := range v.prog.names {
		if fn.Blocks == nil {
			continue
		}
		isInit := fn.Name() == "init" || strings.HasPrefix(fn.Name(), "init#") || strings.HasPrefix(fn.Name(), "init$")
		for _, b := range fn.Blocks {
			for _, in := range b.Instrs {
				// any use of a global other than direct load / IndexAddr-for-read counts as "may be stored"
				var ops []*ssa.Value
				ops = in.Operands(ops)
				for _, op := range ops {
					g, ok := (*op).(*ssa.Global)
					if !ok {
						continue
					}
					if isInit && fn.Pkg == g.Pkg {
						continue
					}
					if !v.readOnlyUse(in, g, 0) {
						v.storedGlobals[g] = true
					}
				}
			}
		}
	}
}

// readOnlyUse: instruction `in` uses address value `a` only for reading.
func (v *Verifier) readOnlyUse(in ssa.Instruction, a ssa.Value, depth int) bool {
	if depth > 4 {
		return false
	}
	switch x := in.(type) {
	case *ssa.UnOp:
		if x.Op != token.MUL {
			return false
		}
		if _, isSl := x.Type().Underlying().(*types.Slice); isSl && ssa.Value(x) != a {
			// the loaded slice header: its backing array must only be read
			for _, r := range *x.Referrers() {
				switch u := r.(type) {
				case *ssa.DebugRef:
				case *ssa.IndexAddr:
					for _, r2 := range *u.Referrers() {
						if lo, ok := r2.(*ssa.UnOp); !ok || lo.Op != token.MUL {
							if _, dbg := r2.(*ssa.DebugRef); !dbg {
								return false
							}
						}
					}
				case *ssa.Call:
					b, ok := u.Call.Value.(*ssa.Builtin)
					if !ok || (b.Name() != "len" && b.Name() != "cap") {
						return false
					}
				default:
					return false
				}
			}
		}
		return true
	case *ssa.IndexAddr, *ssa.FieldAddr:
		val := in.(ssa.Value)
		for _, r := range *val.Referrers() {
			if !v.readOnlyUse(r, val, depth+1) {
				return false
			}
		}
		return true
	case *ssa.DebugRef:
		return true
	case *ssa.Slice:
		// a slice of a global array may be written through; conservative
		return false
	}
	return false
}

func (v *Verifier) globalRef(g *ssa.Global) *Term {
	id, ok := v.globals[g]
	if !ok {
		id = v.nextNeg
		v.nextNeg--
		v.globals[g] = id
		v.initGlobalAxioms(g, id)
	}
	return IntLit(id)
}

func (v *Verifier) strConstRef(s string) *Term {
	id, ok := v.strConsts[s]
	if !ok {
		id = v.nextNeg
		v.nextNeg--
		v.strConsts[s] = id
	}
	return IntLit(id)
}

// strConstRow: the content of a string constant as an SMT array.
func strConstRow(s string) *Term {
	row := ConstArr(ArrS(IntS, BVS(8)), BVLit(0, 8))
	for i := 0; i < len(s); i++ {
		row = Store(row, IntLit(int64(i)), BVLit(uint64(s[i]), 8))
	}
	return row
}

// initGlobalAxioms: for globals never written outside init whose initial
// value is a constant composite literal / error value, record H0 facts.
func (v *Verifier) initGlobalAxioms(g *ssa.Global, id int64) {
	if v.storedGlobals[g] {
		return
	}
	elemT := g.Type().(*types.Pointer).Elem()
	vals, ok := v.prog.globalInit(g)
	st0 := &State{H: map[string]*Term{}}
	ref := IntLit(id)
	if !ok {
		// slice-typed global initialised by a constant composite literal: the
		// backing array gets its own (negative) reference
		if sl, isSl := elemT.Underlying().(*types.Slice); isSl {
			if cells, n, ok2 := v.prog.globalSliceInit(g, sl.Elem()); ok2 {
				arr := v.nextNeg
				v.nextNeg--
				aref := IntLit(arr)
				v.constGlobals[g] = true
				v.axioms = append(v.axioms,
					Eq(st0.loadCell(cellKinds(elemT)[0], ref, IntLit(0)), aref), Eq(st0.loadCell(cellKinds(elemT)[1], ref, IntLit(1)), IntLit(0)),
					Eq(st0.loadCell(cellKinds(elemT)[2], ref, IntLit(2)), IntLit(n)), Eq(st0.loadCell(cellKinds(elemT)[3], ref, IntLit(3)), IntLit(n)))
				ks := cellKinds(sl.Elem())
				for i, c := range cells {
					v.axioms = append(v.axioms, Eq(st0.loadCell(ks[i%len(ks)], aref, IntLit(int64(i))), c))
				}
				v.sliceGlobalArr[g] = arr
				return
			}
		}
	}
	if ok {
		ks := cellKinds(elemT)
		if len(vals) == len(ks) {
			v.constGlobals[g] = true
			// group per kind as one row equality to keep queries small
			rows := map[string]*Term{}
			for i, k := range ks {
				if vals[i] == nil {
					continue
				}
				r, ok := rows[k]
				if !ok {
					r = st0.row(k, ref)
				}
				_ = r
				v.axioms = append(v.axioms, Eq(st0.loadCell(k, ref, IntLit(int64(i))), vals[i]))
			}
		}
		return
	}
	// interface-typed globals named Err*: non-nil, distinct payload per global
	if _, isIface := elemT.Underlying().(*types.Interface); isIface && strings.HasPrefix(g.Name(), "Err") {
		tag := st0.loadCell(cellKinds(elemT)[0], ref, IntLit(0))
		pay := st0.loadCell(cellKinds(elemT)[1], ref, IntLit(1))
		v.axioms = append(v.axioms, Gt(tag, IntLit(0)), Eq(pay, IntLit(id-1000000)))
	}
}

// globalInit: constant initial cells of a global, from its declaration syntax.
func (p *Program) globalInit(g *ssa.Global) ([]*Term, bool) {
	obj, ok := g.Object().(*types.Var)
	if !ok {
		return nil, false
	}
	for _, pk := range p.allPackages() {
		if pk.Types != obj.Pkg() {
			continue
		}
		for id, o := range pk.TypesInfo.Defs {
			if o != obj {
				continue
			}
			// find the ValueSpec
			for _, f := range pk.Syntax {
				if f.Pos() <= id.Pos() && id.Pos() <= f.End() {
					vs := findValueSpec(f, id)
					if vs == nil {
						return nil, false
					}
					for i, n := range vs.Names {
						if n == id && i < len(vs.Values) {
							return constCells(pk.TypesInfo, vs.Values[i], obj.Type())
						}
					}
				}
			}
		}
	}
	return nil, false
}

// ---- units and frames

type Unit struct {
	v        *Verifier
	fn       *ssa.Function
	name     string
	contract *Contract
	facts    []*Term
	obls     []*Obligation
	next0    *Term
	counters map[string]int
	notes    map[string]bool
	inputs   []*Val
	opaque   map[string]bool
	fuel     map[string]int
	errs     []string
	covers   []*Obligation
	top      *Frame
	assumed  map[string]bool
	deps     map[string]bool
	fixLen    map[int]int64
	anchored  map[int]bool
	justified map[string]bool // ensures-by clauses this (lemma function) unit has turned into obligations
	labelled  map[string]*Term // named assertions ("assert after f#k as NAME"), for "from" proofs
	ghost     map[string]*CV // values named by "bind after" clauses (lemma functions)
	names     map[string]int
	unrollAll int // >0: bounded mode — every loop is unrolled this many times and longer runs are cut off
}

type Edge struct {
	from *ssa.BasicBlock
	cond *Term
	st   *State
	env  map[ssa.Value]*Val
}

type retEdge struct {
	cond *Term
	vals []*Val
	st   *State
	nf   int
	ord  int
	env  map[ssa.Value]*Val // SSA values at the return (for $ret_<callee>#k in ensures)
	blk  *ssa.BasicBlock
}

type Frame struct {
	u        *Unit
	fn       *ssa.Function
	fi       *FuncInfo
	contract *Contract
	guard    *Term
	params   []*Val
	fvs      []*Val
	pending  map[*ssa.BasicBlock][]*Edge
	rets     []retEdge
	top      bool
	prefix   string
	entry    *State
	depth    int
	quiet    bool // suppress safety obligations (callee verified separately)
	unroll   map[*Loop]int
	// current block
	env   map[ssa.Value]*Val
	st    *State
	reach *Term
	blk   *ssa.BasicBlock
	headEnv map[*Loop]map[ssa.Value]*Val
	parent    *Frame
	inlineSet map[string]bool
	pendingBy []pendingJustify
	loopMods  []loopMod
	writeKinds []string // heap kinds of the write being checked (for "any" frame targets)
}

type loopMod struct {
	refs      []*Term
	nextEntry *Term
	ord       int
}

func (u *Unit) note(s string) { u.notes[s] = true }

func (u *Unit) assume(guard, fact *Term) {
	f := Implies(guard, fact)
	if f != True {
		u.facts = append(u.facts, f)
	}
}

func (fr *Frame) assume(fact *Term) { fr.u.assume(fr.reach, fact) }

func (fr *Frame) siteName(in ssa.Instruction, kind string) string {
	ord := fr.u.v.siteOrdinal(fr.fn, in, kind)
	base := fmt.Sprintf("%s#%s.%d", fr.u.name, kind, ord)
	if !fr.top {
		base = fmt.Sprintf("%s#inl:%s.%s.%d", fr.u.name, fr.u.v.prog.names[fr.fn], kind, ord)
	}
	fr.u.counters[base]++
	if c := fr.u.counters[base]; c > 1 {
		return fmt.Sprintf("%s@%d", base, c)
	}
	return base
}

var siteCache = map[*ssa.Function]map[ssa.Instruction]int{}

func (v *Verifier) siteOrdinal(fn *ssa.Function, in ssa.Instruction, kind string) int {
	m := siteCache[fn]
	if m == nil {
		m = map[ssa.Instruction]int{}
		cnt := map[string]int{}
		for _, b := range fn.Blocks {
			for _, i := range b.Instrs {
				k := fmt.Sprintf("%T", i)
				if bo, ok := i.(*ssa.BinOp); ok {
					k += bo.Op.String()
				}
				if uo, ok := i.(*ssa.UnOp); ok {
					k += uo.Op.String()
				}
				cnt[k]++
				m[i] = cnt[k]
			}
		}
		siteCache[fn] = m
	}
	if in == nil {
		return 0
	}
	return m[in]
}

// oblig records an obligation at the current point.
func (fr *Frame) oblig(in ssa.Instruction, kind string, goal *Term, desc string) {
	if fr.quiet && kind != "assert" && !strings.HasPrefix(kind, "requires") {
		fr.assume(goal)
		return
	}
	if fr.u.contract != nil && fr.u.contract.Skip[kind] {
		fr.u.note("skipped obligation kind " + kind + " in " + fr.u.name)
		fr.assume(goal)
		return
	}
	name := fr.siteName(in, kind)
	if fr.u.contract != nil {
		base := name
		if i := strings.LastIndex(base, "#"); i >= 0 {
			base = base[i+1:]
		}
		if j := strings.Index(base, "@"); j >= 0 {
			base = base[:j]
		}
		if fr.u.contract.Skip[base] {
			fr.u.note("skipped obligation " + name + " (assumed, see contract)")
			fr.assume(goal)
			return
		}
	}
	pos := "-"
	if in != nil {
		pos = fr.u.v.prog.pos(in.Pos())
	}
	fr.u.addObl(name, kind, fr.reach, goal, pos, desc)
	// after the check the condition holds on the continuing path
	fr.assume(goal)
}

func (u *Unit) addObl(name, kind string, guard, goal *Term, pos, desc string) {
	if u.names == nil {
		u.names = map[string]int{}
	}
	u.names[name]++
	if n := u.names[name]; n > 1 {
		name = fmt.Sprintf("%s@%d", name, n)
	}
	g := Implies(guard, goal)
	o := &Obligation{Name: name, Kind: kind, Fn: u.name, Hyps: append([]*Term{}, u.facts...), Goal: g, Pos: pos, Desc: desc, Inputs: u.inputs, Unit: u, Opaque: u.opaque, Fuel: u.fuel}
	o.Opaque = u.revealFor(name)
	if g == True {
		o.Trivial = true
	}
	u.obls = append(u.obls, o)
}

func (v *Verifier) newUnit(fn *ssa.Function) *Unit {
	name := v.prog.names[fn]
	u := &Unit{v: v, fn: fn, name: name, contract: v.lib.Contracts[name], counters: map[string]int{}, notes: map[string]bool{}, opaque: map[string]bool{}, fuel: map[string]int{}, assumed: map[string]bool{}, deps: map[string]bool{}, anchored: map[int]bool{}, justified: map[string]bool{}}
	if u.contract != nil {
		for _, o := range u.contract.Opaque {
			u.opaque[o] = true
		}
		for k, n := range u.contract.Reveal {
			u.fuel[k] = n
		}
	}
	return u
}

// verifyFunction generates all obligations of one function under its contract.
func (v *Verifier) verifyFunction(fn *ssa.Function) (u *Unit) { return v.verifyFunctionOpts(fn, 0) }

func (v *Verifier) verifyFunctionOpts(fn *ssa.Function, unrollAll int) (u *Unit) {
	return v.verifyFunctionFixed(fn, unrollAll, nil)
}

// verifyFunctionFixed: bounded mode with the lengths of sequence parameters fixed to literals.
func (v *Verifier) verifyFunctionFixed(fn *ssa.Function, unrollAll int, fixLen map[int]int64) (u *Unit) {
	u = v.newUnit(fn)
	u.unrollAll = unrollAll
	u.fixLen = fixLen
	defer func() {
		if r := recover(); r != nil {
			if ee, ok := r.(evalErr); ok {
				u.errs = append(u.errs, string(ee))
				return
			}
			if ue, ok := r.(unsupported); ok {
				u.errs = append(u.errs, "unsupported: "+string(ue))
				return
			}
			panic(r)
		}
	}()
	if u.contract != nil {
		for ln, want := range u.contract.LocalTypes {
			got := ""
			for _, b := range fn.Blocks {
				for _, in := range b.Instrs {
					switch d := in.(type) {
					case *ssa.DebugRef:
						if id, ok := d.Expr.(*ast.Ident); ok && id.Name == ln && !d.IsAddr && got == "" {
							got = mapTypeString(d.X.Type())
						}
					case *ssa.Alloc:
						if d.Comment == ln && got == "" {
							got = mapTypeString(d.Type().(*types.Pointer).Elem())
						}
					}
				}
			}
			if got != want {
				u.errs = append(u.errs, fmt.Sprintf("localtype %s: contract requires type %s, the code has %q (contract.attach)", ln, want, got))
			}
		}
	}
	u.next0 = Var("next0", IntS)
	nextRoot = u.next0
	st := &State{H: map[string]*Term{}, Next: u.next0}
	u.facts = append(u.facts, Gt(u.next0, IntLit(0)))
	u.facts = append(u.facts, v.axioms...)
	v.addGlobalFacts(u, fn, st)
	nAx := len(v.axioms)
	fr := &Frame{u: u, fn: fn, fi: v.info(fn), contract: u.contract, guard: True, top: true, depth: 0}
	if u.contract != nil && u.contract.Lemma {
		// a ghost lemma function is not production code: only its assertions are obligations
		fr.quiet = true
	}
	if u.contract != nil && len(u.contract.Inlines) > 0 {
		fr.inlineSet = map[string]bool{}
		for _, n := range u.contract.Inlines {
			fr.inlineSet[n] = true
		}
	}
	for pi, p := range fn.Params {
		pv := namedVal(p.Type(), "p!"+p.Name())
		normStrings(pv)
		if n, ok := u.fixLen[pi]; ok && (pv.K == VString || pv.K == VSlice) {
			pv.Len = IntLit(n)
			pv.Off = IntLit(0)
			if pv.K == VSlice {
				pv.Cap = IntLit(n)
			}
		}
		fr.params = append(fr.params, pv)
		u.facts = append(u.facts, validFacts(pv, u.next0, nil)...)
		registerBelow(pv, u.next0)
	}
	for _, fv := range fn.FreeVars {
		pv := namedVal(fv.Type(), "fv!"+fv.Name())
		fr.fvs = append(fr.fvs, pv)
		u.facts = append(u.facts, validFacts(pv, u.next0, nil)...)
		registerBelow(pv, u.next0)
	}
	// pointer receivers: methods are specified for non-nil receivers; every call site proves it
	if rc := fn.Signature.Recv(); rc != nil && len(fr.params) > 0 && fr.params[0].K == VPtr {
		u.facts = append(u.facts, Not(Eq(fr.params[0].Ref, IntLit(0))))
	}
	u.inputs = fr.params
	u.top = fr
	fr.entry = st.clone()
	// preconditions
	if c := u.contract; c != nil {
		env := fr.contractEnv(fr.params, nil, st, nil)
		for _, rq := range c.Requires {
			t, err := env.evalBool(rq.E)
			if err != nil {
				u.errs = append(u.errs, fmt.Sprintf("%s: requires %s: %v", rq.Where, rq.Src, err))
				continue
			}
			u.facts = append(u.facts, t)
		}
		// explicit lemma instances over the parameters
		for _, ui := range c.UseInst {
			call, ok := ui.E.(*ECall)
			l := v.lib.Lemmas[""]
			if ok {
				l = v.lib.Lemmas[call.Fun]
			}
			if !ok || l == nil || len(call.Args) != len(l.Params) {
				u.errs = append(u.errs, fmt.Sprintf("%s: uses %s: unknown lemma or wrong arity (contract.attach)", ui.Where, ui.Src))
				continue
			}
			lenv, lvars := v.lib.paramEnv(l.Params, "", true)
			stmt, err := lenv.evalBool(l.Stmt)
			if err != nil {
				u.errs = append(u.errs, fmt.Sprintf("%s: uses %s: %v", ui.Where, ui.Src, err))
				continue
			}
			m := map[*Term]*Term{}
			k := 0
			bad := false
			for i, p := range l.Params {
				cv, err := env.safeEval(call.Args[i])
				if err != nil {
					u.errs = append(u.errs, fmt.Sprintf("%s: uses %s: %v (contract.attach)", ui.Where, ui.Src, err))
					bad = true
					break
				}
				ts := env.coerceTo(cv, p.Type)
				for _, t := range ts {
					m[lvars[k]] = t
					k++
				}
			}
			if !bad {
				u.facts = append(u.facts, Subst(stmt, m))
			}
		}
		// vacuity: the precondition must be satisfiable
		u.covers = append(u.covers, &Obligation{Name: u.name + "#cover.requires", Kind: "cover", Fn: u.name, Hyps: append([]*Term{}, u.facts...), Goal: False, Cover: true, Unit: u, Opaque: u.opaque, Fuel: u.fuel})
	}
	// late-registered global axioms (globals discovered during execution) are appended at the end
	fr.run(st)
	fr.finish()
	// a lemma function must have met (and so proved) every ensures-by clause that names it
	if u.contract != nil && u.contract.Lemma && unrollAll == 0 {
		for cn, c := range v.lib.Contracts {
			for _, ce := range c.CallerEnsures {
				if ce.By == u.name && !u.justified[c.Fn+"|"+ce.C.Src] {
					u.errs = append(u.errs, fmt.Sprintf("%s: ensures-by clause of %s names %s, which never calls it on a reachable path (contract.attach)", ce.C.Where, cn, u.name))
				}
			}
		}
	}
	// every proof-decomposition assertion must have found its anchor call
	if u.contract != nil && unrollAll == 0 {
		for k, a := range u.contract.Asserts {
			if !u.anchored[k] {
				u.errs = append(u.errs, fmt.Sprintf("%s: assert after %s#%d: the anchor call does not exist (or is unreachable) in %s (contract.attach)", a.C.Where, a.Callee, a.Ord, u.name))
			}
		}
	}
	if len(v.axioms) > nAx {
		extra := v.axioms[nAx:]
		for _, o := range u.obls {
			o.Hyps = append(o.Hyps, extra...)
		}
		for _, o := range u.covers {
			o.Hyps = append(o.Hyps, extra...)
		}
	}
	return u
}

type unsupported string

func unsup(f string, a ...interface{}) { panic(unsupported(fmt.Sprintf(f, a...))) }

// contractEnv builds the evaluation environment for a contract of fr.fn.
func (fr *Frame) contractEnv(params []*Val, results []*Val, st, old *State) *Env {
	env := &Env{vars: map[string]*CV{}, st: st, old: old, lib: fr.u.v.lib, prog: fr.u.v.prog, unit: fr.u}
	if old != nil {
		env.oldNext = old.Next
	}
	for i, p := range fr.fn.Params {
		env.vars[p.Name()] = cvOfVal(canonVal(params[i]))
		// entry value of a (possibly reassigned) parameter: <name>0
		env.vars[p.Name()+"0"] = env.vars[p.Name()]
	}
	for i, r := range results {
		env.vars[fmt.Sprintf("result%d", i)] = cvOfVal(canonVal(r))
		if rs := fr.fn.Signature.Results(); rs != nil && i < rs.Len() && rs.At(i).Name() != "" && rs.At(i).Name() != "_" {
			if _, clash := env.vars[rs.At(i).Name()]; !clash {
				env.vars[rs.At(i).Name()] = cvOfVal(canonVal(r))
			}
		}
	}
	if len(results) == 1 {
		env.vars["result"] = cvOfVal(canonVal(results[0]))
	}
	if len(results) > 0 {
		last := results[len(results)-1]
		if last.K == VIface {
			env.vars["err"] = cvOfVal(last)
		}
	}
	for n, c := range fr.u.v.lib.Consts {
		if _, ok := env.vars[n]; !ok {
			env.vars[n] = c
		}
	}
	fn := fr.fn
	entry := fr.entry
	env.resolve = func(name string, cur *Env) *CV {
		// $calls_<callee>: calls of <callee> executed by this function so far
		if strings.HasPrefix(name, "$calls_") {
			id := IntLit(callsID(name[len("$calls_"):]))
			now := cur.st.loadCell(callsKind, IntLit(0), id)
			if entry == nil {
				return cvInt(IntLit(0))
			}
			return cvInt(Sub(now, entry.loadCell(callsKind, IntLit(0), id)))
		}
		return fr.u.v.resolveGlobalName(fn, name, cur)
	}
	return env
}

// resolveGlobalName: package-level variables / constants of the function's package.
func (v *Verifier) resolveGlobalName(fn *ssa.Function, name string, env *Env) *CV {
	pk := fn.Pkg
	if pk == nil && fn.Parent() != nil {
		pk = fn.Parent().Pkg
	}
	if pk == nil {
		return nil
	}
	addr := strings.HasPrefix(name, "&")
	name = strings.TrimPrefix(name, "&")
	if i := strings.Index(name, "."); i > 0 {
		// qualified: a package the function's package imports (by its short name)
		var q *ssa.Package
		for _, imp := range pk.Pkg.Imports() {
			if shortPkg(imp.Path()) == name[:i] || imp.Name() == name[:i] {
				q = v.prog.Prog.Package(imp)
			}
		}
		if q == nil {
			return nil
		}
		pk, name = q, name[i+1:]
	}
	if m := pk.Members[name]; m != nil {
		switch m := m.(type) {
		case *ssa.Global:
			ref := v.globalRef(m)
			if addr {
				return cvOfVal(&Val{K: VPtr, T: m.Type(), Ref: ref, Off: IntLit(0)})
			}
			t := m.Type().(*types.Pointer).Elem()
			// arrays are exposed as pointers so that indexing reads memory lazily
			if _, isArr := t.Underlying().(*types.Array); isArr {
				return cvOfVal(&Val{K: VPtr, T: m.Type(), Ref: ref, Off: IntLit(0)})
			}
			return cvOfVal(env.st.load(t, ref, IntLit(0)))
		case *ssa.NamedConst:
			if m.Value.Value.Kind() == constant.Int {
				bi, _ := new(big.Int).SetString(m.Value.Value.ExactString(), 10)
				return &CV{K: CLit, Lit: bi}
			}
			if m.Value.Value.Kind() == constant.String {
				s := constant.StringVal(m.Value.Value)
				return &CV{K: CSeq, Row: strConstRow(s), Off: IntLit(0), Len: IntLit(int64(len(s)))}
			}
		}
	}
	return nil
}

// canonVal converts BV-represented Go ints to the canonical Int sort.
func canonVal(v *Val) *Val {
	switch v.K {
	case VScalar:
		if isGoInt(v.T) && v.S.S != IntS {
			n := *v
			n.S = BV2IntSigned(v.S)
			return &n
		}
	case VTuple:
		ch := false
		el := make([]*Val, len(v.El))
		for i, e := range v.El {
			el[i] = canonVal(e)
			if el[i] != e {
				ch = true
			}
		}
		if ch {
			n := *v
			n.El = el
			return &n
		}
	}
	return v
}

// ---- running a frame

func (fr *Frame) run(st *State) {
	fr.pending = map[*ssa.BasicBlock][]*Edge{}
	fr.headEnv = map[*Loop]map[ssa.Value]*Val{}
	if len(fr.fn.Blocks) == 0 {
		unsup("function %s has no body", fr.u.v.prog.names[fr.fn])
	}
	env := map[ssa.Value]*Val{}
	for i, p := range fr.fn.Params {
		env[p] = fr.localVal(p, fr.params[i])
	}
	for i, p := range fr.fn.FreeVars {
		env[p] = fr.fvs[i]
	}
	fr.pending[fr.fn.Blocks[0]] = []*Edge{{from: nil, cond: fr.guard, st: st, env: env}}
	fr.execRegion(nil)
}

// localVal: bring a canonical value into this function's int representation.
func (fr *Frame) localVal(v ssa.Value, val *Val) *Val {
	if fr.fi.BVInts[v] && val.K == VScalar && val.S.S == IntS {
		n := *val
		n.S = Int2BV(64, val.S)
		return &n
	}
	return val
}

func (fr *Frame) execRegion(l *Loop) {
	for _, b := range fr.fi.RPO {
		if l != nil && !l.Blocks[b] {
			continue
		}
		if l == nil || b != l.Head {
			// inner loop head?
			if il := fr.fi.Loops[b]; il != nil && il != l {
				if fr.fi.LoopOf[b] == il && il.Parent == l {
					fr.execLoop(il)
				}
				continue
			}
			// blocks belonging to an inner loop are executed by execLoop
			if lo := fr.fi.LoopOf[b]; lo != l {
				continue
			}
		}
		edges := fr.pending[b]
		delete(fr.pending, b)
		if len(edges) == 0 {
			continue
		}
		fr.execBlock(b, edges)
	}
}

func liveEdges(es []*Edge) []*Edge {
	var out []*Edge
	for _, e := range es {
		if e.cond != False {
			out = append(out, e)
		}
	}
	return out
}

func (fr *Frame) loopSpec(l *Loop) *LoopSpec {
	if fr.contract != nil {
		if ls := fr.contract.Loops[l.Ordinal]; ls != nil {
			return ls
		}
	}
	return &LoopSpec{}
}

func (fr *Frame) execLoop(l *Loop) {
	entry := liveEdges(fr.pending[l.Head])
	delete(fr.pending, l.Head)
	if len(entry) == 0 {
		return
	}
	ls := fr.loopSpec(l)
	n := ls.Unroll
	if !fr.top && ls.InlineUnroll > 0 {
		n = ls.InlineUnroll
	}
	if fr.unroll != nil {
		if k, ok := fr.unroll[l]; ok {
			n = k
		}
	}
	if fr.u.unrollAll > 0 {
		n = fr.u.unrollAll
	}
	if n > 0 {
		inc := entry
		for it := 0; it <= n; it++ {
			inc = liveEdges(inc)
			if len(inc) == 0 {
				break
			}
			// visit number it+1 of the head; the (n+1)-th visit may only leave the loop
			fr.pending[l.Head] = inc
			fr.execRegion(l)
			inc = fr.pending[l.Head]
			delete(fr.pending, l.Head)
		}
		inc = liveEdges(inc)
		if len(inc) > 0 {
			var cs []*Term
			for _, e := range inc {
				cs = append(cs, e.cond)
			}
			if fr.u.unrollAll > 0 {
				// bounded search: executions needing more iterations are not explored
				fr.u.facts = append(fr.u.facts, Not(Or(cs...)))
			} else {
				fr.u.addObl(fmt.Sprintf("%s#unwind.loop%d", fr.oblPrefix(), l.Ordinal), "unwind", True, Not(Or(cs...)), fr.u.v.prog.pos(l.Pos), fmt.Sprintf("loop %d needs at most %d iterations", l.Ordinal, n))
			}
		}
		return
	}
	fr.execCutLoop(l, ls, entry)
}

func (fr *Frame) oblPrefix() string {
	if fr.top {
		return fr.u.name
	}
	return fr.u.name + "#inl:" + fr.u.v.prog.names[fr.fn]
}

// phisOf returns the φ-nodes at the head of a block.
func phisOf(b *ssa.BasicBlock) []*ssa.Phi {
	var ps []*ssa.Phi
	for _, in := range b.Instrs {
		if p, ok := in.(*ssa.Phi); ok {
			ps = append(ps, p)
		} else if _, ok := in.(*ssa.DebugRef); ok {
			continue
		} else {
			break
		}
	}
	return ps
}

func predIndex(b, from *ssa.BasicBlock, nth int) int {
	c := 0
	for i, p := range b.Preds {
		if p == from {
			if c == nth {
				return i
			}
			c++
		}
	}
	return -1
}

func (fr *Frame) edgeVal(e *Edge, v ssa.Value) *Val {
	if c, ok := v.(*ssa.Const); ok {
		return fr.constVal(c)
	}
	if g, ok := v.(*ssa.Global); ok {
		return &Val{K: VPtr, T: g.Type(), Ref: fr.u.v.globalRef(g), Off: IntLit(0)}
	}
	if f, ok := v.(*ssa.Function); ok {
		return &Val{K: VFunc, T: f.Type(), S: IntLit(fr.u.v.typeTag(types.NewPointer(f.Type())) + 1000), Fn: &closureInfo{fn: f}}
	}
	r := e.env[v]
	if r == nil {
		unsup("value %s (%T) not available on edge in %s", v.Name(), v, fr.fn.Name())
	}
	return r
}

func (fr *Frame) execCutLoop(l *Loop, ls *LoopSpec, entry []*Edge) {
	u := fr.u
	phis := phisOf(l.Head)
	lname := fmt.Sprintf("%s#loop%d", fr.oblPrefix(), l.Ordinal)
	pos := u.v.prog.pos(l.Pos)
	if len(ls.Invariants) == 0 {
		u.note(fmt.Sprintf("loop %d of %s has no invariant: cut with `true`", l.Ordinal, u.v.prog.names[fr.fn]))
	}
	// 1. invariant on entry
	evalInv := func(e *Edge, phiVals map[*ssa.Phi]*Val, st *State, env map[ssa.Value]*Val) []*Term {
		cenv := fr.loopEnv(l, phis, phiVals, st, env)
		var out []*Term
		for _, inv := range ls.Invariants {
			t, err := cenv.evalBool(inv.E)
			if err != nil {
				u.errs = append(u.errs, fmt.Sprintf("%s: loop %d invariant %s: %v (contract.attach)", inv.Where, l.Ordinal, inv.Src, err))
				t = True
			}
			out = append(out, t)
		}
		return out
	}
	// automatic invariant and variant of `range` loops over slices/strings/ints:
	// -1 <= rangeindex && rangeindex+1 <= len  (checked like any other invariant)
	var riPhi *ssa.Phi
	var riLen ssa.Value
	for _, p := range phis {
		if p.Comment != "rangeindex" || p.Referrers() == nil {
			continue
		}
		for _, r := range *p.Referrers() {
			inc, ok := r.(*ssa.BinOp)
			if !ok || inc.Op != token.ADD || inc.Referrers() == nil {
				continue
			}
			for _, r2 := range *inc.Referrers() {
				if cmp, ok := r2.(*ssa.BinOp); ok && cmp.Op == token.LSS && cmp.X == ssa.Value(inc) {
					riPhi, riLen = p, cmp.Y
				}
			}
		}
	}
	autoInv := func(phiVals map[*ssa.Phi]*Val, env map[ssa.Value]*Val) (*Term, *Term) {
		if riPhi == nil {
			// counting loops: an integer loop variable that starts at 0 and is incremented by one
			// per iteration is never negative (checked like any other invariant)
			var ts []*Term
			for _, p := range phis {
				if !isGoInt(p.Type()) || phiVals[p] == nil || len(p.Edges) != 2 || fr.fi.BVInts[p] {
					continue
				}
				zero, inc := false, false
				for _, ed := range p.Edges {
					if c, ok := ed.(*ssa.Const); ok && c.Value != nil && c.Int64() == 0 {
						zero = true
					}
					if bo, ok := ed.(*ssa.BinOp); ok && bo.Op == token.ADD && bo.X == p {
						if c, ok := bo.Y.(*ssa.Const); ok && c.Value != nil && c.Int64() == 1 {
							inc = true
						}
					}
				}
				if zero && inc {
					if s := canonVal(phiVals[p]).S; s.S == IntS {
						ts = append(ts, Le(IntLit(0), s))
					}
				}
			}
			if len(ts) == 0 {
				return nil, nil
			}
			return And(ts...), nil
		}
		var lv *Val
		if c, ok := riLen.(*ssa.Const); ok {
			lv = fr.constVal(c)
		} else {
			lv = env[riLen]
		}
		if lv == nil {
			return nil, nil
		}
		ri := canonVal(phiVals[riPhi]).S
		ln := canonVal(lv).S
		return And(Le(IntLit(-1), ri), Le(Add(ri, IntLit(1)), ln)), Sub(ln, Add(ri, IntLit(1)))
	}
	cnt := map[*ssa.BasicBlock]int{}
	for _, e := range entry {
		pv := map[*ssa.Phi]*Val{}
		idx := predIndex(l.Head, e.from, cnt[e.from])
		cnt[e.from]++
		for _, p := range phis {
			pv[p] = fr.edgeVal(e, p.Edges[idx])
		}
		for i, t := range evalInv(e, pv, e.st, e.env) {
			u.addObl(fmt.Sprintf("%s.inv%d.entry", lname, i+1), "loop.inv.entry", e.cond, t, pos, ls.Invariants[i].Src)
		}
		if t, _ := autoInv(pv, e.env); t != nil {
			u.addObl(fmt.Sprintf("%s.rangeinv.entry", lname), "loop.inv.entry", e.cond, t, pos, "range index within bounds (automatic)")
		}
	}
	// 2. havoc
	var conds []*Term
	var sts []*State
	for _, e := range entry {
		conds = append(conds, e.cond)
		sts = append(sts, e.st)
	}
	reach := Or(conds...)
	st := mergeStates(conds, sts)
	env := map[ssa.Value]*Val{}
	for k, v := range entry[0].env {
		env[k] = v
	}
	for i := 1; i < len(entry); i++ {
		for k, v := range entry[i].env {
			if o, ok := env[k]; ok && o != v {
				env[k] = mergeVals(entry[i].cond, v, o)
			} else if !ok {
				env[k] = v
			}
		}
	}
	nextEntry := st.Next
	w := fr.loopWrites(l, env)
	if len(ls.Modifies) > 0 {
		// declared write set of the loop: checked store by store while the body runs
		cenv := fr.loopEnv(l, phis, map[*ssa.Phi]*Val{}, st, env)
		var refs []*Term
		okAll := true
		for _, m := range ls.Modifies {
			r, err := modTargetRef(cenv, m)
			if err != nil {
				u.errs = append(u.errs, fmt.Sprintf("%s: loop %d modifies %s: %v (contract.attach)", m.Where, l.Ordinal, m.Src, err))
				okAll = false
				continue
			}
			refs = append(refs, r)
		}
		if okAll {
			w.unknown = false
			w.refs = refs
			fr.loopMods = append(fr.loopMods, loopMod{refs: refs, nextEntry: nextEntry, ord: l.Ordinal})
			defer func() { fr.loopMods = fr.loopMods[:len(fr.loopMods)-1] }()
		}
	}
	if w.allocs {
		var f *Term
		st.Next, f = newNext(nextEntry)
		u.facts = append(u.facts, f)
	}
	// call counters: unknown after any number of iterations (invariants may pin them)
	if fr.parent == nil {
		var ids []int64
		seenID := map[int64]bool{}
		for _, b := range fr.fn.Blocks { // block order: deterministic
			if !l.Blocks[b] {
				continue
			}
			for _, in := range b.Instrs {
				if cl, ok := in.(*ssa.Call); ok {
					if n := calleeDisplayName(&cl.Call); n != "" && !seenID[callsID(n)] {
						seenID[callsID(n)] = true
						ids = append(ids, callsID(n))
					}
				}
				if _, ok := in.(*ssa.MapUpdate); ok && !seenID[callsID(mapUpdateName)] {
					seenID[callsID(mapUpdateName)] = true
					ids = append(ids, callsID(mapUpdateName))
				}
			}
		}
		for _, id := range ids {
			st.storeCell(callsKind, IntLit(0), IntLit(id), Fresh("calls", IntS))
		}
	}
	for kind := range w.full {
		st.H[kind] = Fresh("H!"+kind, heapSort(kind))
	}
	for kind := range w.kinds {
		if w.full[kind] {
			continue
		}
		if w.unknown {
			// everything of this kind may have changed
			st.H[kind] = Fresh("H!"+kind, heapSort(kind))
			u.note(fmt.Sprintf("loop %d of %s: write target not statically rooted; heap kind %s fully havoced", l.Ordinal, u.v.prog.names[fr.fn], kind))
			continue
		}
		for _, r := range w.refs {
			st.setRow(kind, r, Fresh("row!"+kind, ArrS(IntS, kindSort(kind))))
		}
	}
	phiVals := map[*ssa.Phi]*Val{}
	for _, p := range phis {
		var hv *Val
		if fr.fi.BVInts[p] && isGoInt(p.Type()) {
			// an int kept as a 64-bit word in this function: havoc it as a word
			hv = &Val{K: VScalar, T: p.Type(), S: Fresh("phi!"+strings.ReplaceAll(p.Comment, " ", "_"), BVS(64))}
		} else {
			hv = freshVal(p.Type(), "phi!"+strings.ReplaceAll(p.Comment, " ", "_"))
			u.facts = append(u.facts, validFacts(hv, st.Next, nil)...)
			registerBelow(hv, st.Next)
		}
		phiVals[p] = hv
	}
	for i, t := range evalInv(nil, phiVals, st, env) {
		_ = i
		u.assume(reach, t)
	}
	autoHead, autoDec := autoInv(phiVals, env)
	if autoHead != nil {
		u.assume(reach, autoHead)
	}
	headSt := st.clone()
	// variant at head
	var dec0 *Term
	if ls.Decreases != nil {
		cenv := fr.loopEnv(l, phis, phiVals, st, env)
		cv, err := cenv.safeEval(ls.Decreases.E)
		if err != nil {
			u.errs = append(u.errs, fmt.Sprintf("%s: loop %d decreases: %v", ls.Decreases.Where, l.Ordinal, err))
		} else {
			dec0 = cv.asInt()
		}
	}
	// 3. run body once from the havoced head
	henv := map[ssa.Value]*Val{}
	for k, v := range env {
		henv[k] = v
	}
	for p, v := range phiVals {
		henv[p] = v
	}
	fr.pending[l.Head] = []*Edge{{from: nil, cond: reach, st: st, env: henv}}
	fr.headEnv[l] = henv
	fr.execRegion(l)
	// 4. back edges: preservation
	back := liveEdges(fr.pending[l.Head])
	delete(fr.pending, l.Head)
	cnt = map[*ssa.BasicBlock]int{}
	for _, e := range back {
		pv := map[*ssa.Phi]*Val{}
		idx := predIndex(l.Head, e.from, cnt[e.from])
		cnt[e.from]++
		for _, p := range phis {
			pv[p] = fr.edgeVal(e, p.Edges[idx])
		}
		savedFacts := len(u.facts)
		_ = savedFacts
		for i, t := range evalInv(e, pv, e.st, e.env) {
			u.addObl(fmt.Sprintf("%s.inv%d.preserve", lname, i+1), "loop.inv.preserve", e.cond, t, pos, ls.Invariants[i].Src)
		}
		if t, d1 := autoInv(pv, e.env); t != nil {
			u.addObl(fmt.Sprintf("%s.rangeinv.preserve", lname), "loop.inv.preserve", e.cond, t, pos, "range index within bounds (automatic)")
			if dec0 == nil && d1 != nil && autoDec != nil {
				u.addObl(fmt.Sprintf("%s.decreases", lname), "loop.dec", e.cond, And(Lt(d1, autoDec), Le(IntLit(0), autoDec)), pos, "range loop variant (automatic)")
			}
		}
		if dec0 != nil {
			cenv := fr.loopEnv(l, phis, pv, e.st, e.env)
			cv, err := cenv.safeEval(ls.Decreases.E)
			if err == nil {
				d1 := cv.asInt()
				u.addObl(fmt.Sprintf("%s.decreases", lname), "loop.dec", e.cond, And(Lt(d1, dec0), Le(IntLit(0), dec0)), pos, ls.Decreases.Src)
			}
		}
		// frame check for loop: writes in the body must stay inside the havoced set — guaranteed by construction (loopWrites is a syntactic over-approximation)
	}
	_ = headSt
}

// loopEnv: names visible in loop clauses.
func (fr *Frame) loopEnv(l *Loop, phis []*ssa.Phi, phiVals map[*ssa.Phi]*Val, st *State, env map[ssa.Value]*Val) *Env {
	cenv := fr.contractEnv(fr.params, nil, st, fr.entry)
	byName := map[string]*Val{}
	for _, p := range phis {
		nm := p.Comment
		if nm == "" {
			continue
		}
		if _, dup := byName[nm]; dup {
			continue
		}
		if phiVals[p] == nil {
			continue
		}
		byName[nm] = phiVals[p]
	}
	for n, v := range byName {
		if n == "rangeindex" {
			cenv.vars["$i"] = cvInt(Add(canonVal(v).S, IntLit(1)))
			continue
		}
		cenv.vars[n] = cvOfVal(v)
	}
	// Loop-form tolerance (a heuristic binding: sound for the same reason as renamed locals, see hints.go).
	// (a) a range loop `for i := range s`: at the head, the key variable's name denotes the index of the
	//     next iteration, which is what `i` meant in the equivalent counting loop.
	if rv, ok := byName["rangeindex"]; ok {
		var rphi *ssa.Phi
		for _, p := range phis {
			if p.Comment == "rangeindex" {
				rphi = p
			}
		}
		if rphi != nil {
			for b := range l.Blocks {
				for _, in := range b.Instrs {
					d, ok := in.(*ssa.DebugRef)
					if !ok || d.IsAddr {
						continue
					}
					id, ok := d.Expr.(*ast.Ident)
					if !ok {
						continue
					}
					if bo, ok := d.X.(*ssa.BinOp); ok && bo.Op == token.ADD && bo.X == rphi {
						if _, clash := cenv.vars[id.Name]; !clash {
							cenv.vars[id.Name] = cvInt(Add(canonVal(rv).S, IntLit(1)))
						}
					}
				}
			}
		}
	} else if _, has := cenv.vars["$i"]; !has {
		// (b) a counting loop `for i := 0; i < n; i++` where the contract says $i: the loop's only
		//     integer variable that starts at 0 and is incremented by one per iteration.
		var cand *ssa.Phi
		n := 0
		for _, p := range phis {
			if !isGoInt(p.Type()) || phiVals[p] == nil || len(p.Edges) != 2 {
				continue
			}
			zero, inc := false, false
			for _, ed := range p.Edges {
				if c, ok := ed.(*ssa.Const); ok && c.Value != nil && c.Int64() == 0 {
					zero = true
				}
				if bo, ok := ed.(*ssa.BinOp); ok && bo.Op == token.ADD && bo.X == p {
					if c, ok := bo.Y.(*ssa.Const); ok && c.Value != nil && c.Int64() == 1 {
						inc = true
					}
				}
			}
			if zero && inc {
				cand = p
				n++
			}
		}
		if n == 1 {
			cenv.vars["$i"] = cvInt(canonVal(phiVals[cand]).S)
		}
	}
	// loop variables that were renamed since the pinned tree are also visible under their old names
	for old := range localHints[fr.u.v.prog.names[fr.fn]] {
		if alt := fr.u.v.renamedLocal(fr.fn, old); alt != "" {
			if v, ok := byName[alt]; ok {
				if _, clash := cenv.vars[old]; !clash {
					cenv.vars[old] = cvOfVal(v)
				}
			}
		}
	}
	base := cenv.resolve
	cenv.resolve = func(name string, cur *Env) *CV {
		if v := fr.resolveLocal(name, l.Head, env, cur.st); v != nil {
			return v
		}
		return base(name, cur)
	}
	return cenv
}

// resolveLocal finds the SSA value bound to a source-level local name that is
// available at block `at` (parameters are handled by the caller).
func (fr *Frame) resolveLocal(name string, at *ssa.BasicBlock, env map[ssa.Value]*Val, st *State) *CV {
	// $ret_<callee>#<k> / $ret<N>_<callee>#<k>: result (component N) of the k-th static call of <callee>, once executed on this path
	if strings.HasPrefix(name, "$ret") && strings.Contains(name, "_") {
		us := strings.Index(name, "_")
		comp := -1
		if us > 4 {
			fmt.Sscanf(name[4:us], "%d", &comp)
		}
		rest := name[us+1:]
		k := 1
		if h := strings.Index(rest, "#"); h >= 0 {
			fmt.Sscanf(rest[h+1:], "%d", &k)
			rest = rest[:h]
		}
		ord := 0
		for _, b := range fr.fn.Blocks {
			for _, in := range b.Instrs {
				cl, ok := in.(*ssa.Call)
				if !ok {
					continue
				}
				nm := ""
				if bb, ok := cl.Call.Value.(*ssa.Builtin); ok {
					nm = bb.Name()
				} else if sc := cl.Call.StaticCallee(); sc != nil {
					nm = sc.Name()
				} else if cl.Call.IsInvoke() {
					nm = cl.Call.Method.Name()
				}
				if nm != rest {
					continue
				}
				ord++
				if ord == k {
					v, ok := env[cl]
					if !ok {
						// not executed on the paths leading here: an arbitrary value (clauses must guard it)
						v = freshVal(cl.Type(), "notcalled")
					}
					if comp >= 0 {
						if v.K != VTuple || comp >= len(v.El) {
							return nil
						}
						return cvOfVal(canonVal(v.El[comp]))
					}
					if _, multi := cl.Type().(*types.Tuple); multi && v.K == VTuple {
						return nil
					}
					return cvOfVal(canonVal(v))
				}
			}
		}
		return nil
	}
	// $i<k>: completed iterations of enclosing range loop k (visible inside its body, e.g. in inner loops and call-site asserts)
	if strings.HasPrefix(name, "$i") && len(name) > 2 {
		var k int
		if _, err := fmt.Sscanf(name[2:], "%d", &k); err == nil {
			if l := fr.fi.ByOrd[k]; l != nil && (l.Blocks[at] || l.Head == at) {
				for _, in := range l.Head.Instrs {
					if p, ok := in.(*ssa.Phi); ok && p.Comment == "rangeindex" {
						if v, ok := env[p]; ok {
							return cvInt(Add(canonVal(v).S, IntLit(1)))
						}
					}
				}
			}
		}
		return nil
	}
	want := name
	nth := 0
	if i := strings.Index(name, "#"); i >= 0 {
		want = name[:i]
		fmt.Sscanf(name[i+1:], "%d", &nth)
	}
	if alt := fr.u.v.renamedLocal(fr.fn, want); alt != "" {
		fr.u.note("contract name " + want + " is bound to the local now called " + alt + " (same type and position as in the pinned tree)")
		want = alt
	}
	// address-taken / captured locals
	var allocs []*ssa.Alloc
	for _, b := range fr.fn.Blocks {
		for _, in := range b.Instrs {
			if a, ok := in.(*ssa.Alloc); ok && a.Comment == want {
				allocs = append(allocs, a)
			}
		}
	}
	if len(allocs) > 0 {
		k := 0
		if nth > 0 {
			k = nth - 1
		}
		if k < len(allocs) {
			if pv, ok := env[allocs[k]]; ok {
				t := allocs[k].Type().(*types.Pointer).Elem()
				return cvOfVal(st.load(t, pv.Ref, pv.Off))
			}
		}
	}
	// The variable's value at `at`: the closest reference (DebugRef or φ named
	// after the variable) in a block that dominates `at`.
	var best ssa.Value
	var bestBlk *ssa.BasicBlock
	consider := func(x ssa.Value, db *ssa.BasicBlock) {
		if !(db == at || db.Dominates(at)) {
			return
		}
		if _, ok := env[x]; !ok {
			if _, isC := x.(*ssa.Const); !isC {
				return
			}
		}
		if best == nil || bestBlk == db || bestBlk.Dominates(db) {
			best, bestBlk = x, db // later references in the same block win
		}
	}
	for _, b := range fr.fn.Blocks {
		for _, in := range b.Instrs {
			switch d := in.(type) {
			case *ssa.DebugRef:
				if d.IsAddr || identName(d) != want {
					continue
				}
				if p, isPhi := d.X.(*ssa.Phi); isPhi && p.Block() == at && b != at {
					// a φ of this very head referenced from inside the loop: bound explicitly by the caller
					continue
				}
				consider(d.X, b)
			case *ssa.Phi:
				if d.Comment == want {
					consider(d, b)
				}
			}
		}
	}
	if best != nil {
		if c, ok := best.(*ssa.Const); ok {
			return cvOfVal(canonVal(fr.constVal(c)))
		}
		return cvOfVal(env[best])
	}
	return nil
}

type loopWriteInfo struct {
	kinds   map[string]bool
	refs    []*Term
	unknown bool
	allocs  bool
	full    map[string]bool // kinds havoced entirely ("any T.f" frame targets of callees)
}

// loopWrites: syntactic over-approximation of what the loop body may write.
func (fr *Frame) loopWrites(l *Loop, env map[ssa.Value]*Val) *loopWriteInfo {
	w := &loopWriteInfo{kinds: map[string]bool{}}
	seenRef := map[*Term]bool{}
	addRoot := func(v ssa.Value, visited map[ssa.Value]bool) {}
	var root func(v ssa.Value, visited map[ssa.Value]bool)
	root = func(v ssa.Value, visited map[ssa.Value]bool) {
		if visited[v] {
			return
		}
		visited[v] = true
		// defined outside the loop: a loop-invariant root
		if ins, ok := v.(ssa.Instruction); !ok || !l.Blocks[ins.Block()] {
			switch x := v.(type) {
			case *ssa.Const:
				return // nil
			case *ssa.Global:
				r := fr.u.v.globalRef(x)
				if !seenRef[r] {
					seenRef[r] = true
					w.refs = append(w.refs, r)
				}
				return
			}
			val := env[v]
			if val == nil {
				w.unknown = true
				return
			}
			var r *Term
			switch val.K {
			case VPtr, VSlice:
				r = val.Ref
			case VMap:
				r = val.S
			default:
				w.unknown = true
				return
			}
			if !seenRef[r] {
				seenRef[r] = true
				w.refs = append(w.refs, r)
			}
			return
		}
		switch x := v.(type) {
		case *ssa.IndexAddr:
			root(x.X, visited)
		case *ssa.FieldAddr:
			root(x.X, visited)
		case *ssa.Slice:
			root(x.X, visited)
		case *ssa.Phi:
			for _, e := range x.Edges {
				root(e, visited)
			}
		case *ssa.Alloc, *ssa.MakeSlice, *ssa.MakeMap:
			w.allocs = true // fresh inside the loop: beyond `next` at entry
		case *ssa.Call:
			if b, ok := x.Call.Value.(*ssa.Builtin); ok && b.Name() == "append" {
				w.allocs = true
				root(x.Call.Args[0], visited)
				return
			}
			// result of a call: fresh or unknown
			if callee := x.Call.StaticCallee(); callee != nil {
				if c := fr.u.v.lib.Contracts[fr.u.v.prog.names[callee]]; c != nil && contractResultFresh(c) {
					w.allocs = true
					return
				}
			}
			w.unknown = true
		case *ssa.ChangeType:
			root(x.X, visited)
		case *ssa.Convert:
			w.allocs = true
		default:
			w.unknown = true
		}
	}
	_ = addRoot
	var scanFn func(fn *ssa.Function, blocks map[*ssa.BasicBlock]bool, depth int, argRoot func(i int))
	for b := range l.Blocks {
		for _, in := range b.Instrs {
			switch x := in.(type) {
			case *ssa.Store:
				for _, k := range addrKinds(x.Addr) {
					w.kinds[k] = true
				}
				root(x.Addr, map[ssa.Value]bool{})
			case *ssa.MapUpdate:
				w.kinds["int"] = true // ghost size cell of the map object
				root(x.Map, map[ssa.Value]bool{})
			case *ssa.Alloc, *ssa.MakeSlice, *ssa.MakeMap, *ssa.MakeInterface, *ssa.MakeClosure:
				w.allocs = true
			case *ssa.BinOp:
				if x.Op == token.ADD && isStringT(x.Type()) {
					w.allocs = true
				}
			case *ssa.Convert:
				w.allocs = true
			case *ssa.Call:
				fr.callWrites(x, l, w, root)
			}
		}
	}
	_ = scanFn
	return w
}

func contractResultFresh(c *Contract) bool {
	for _, e := range c.Ensures {
		if strings.Contains(e.Src, "fresh(result") || strings.Contains(e.Src, "unique(result") {
			return true
		}
	}
	return false
}

func (fr *Frame) callWrites(x *ssa.Call, l *Loop, w *loopWriteInfo, root func(ssa.Value, map[ssa.Value]bool)) {
	if b, ok := x.Call.Value.(*ssa.Builtin); ok {
		switch b.Name() {
		case "append":
			w.allocs = true
			t := x.Call.Args[0].Type().Underlying().(*types.Slice).Elem()
			for _, k := range cellKinds(t) {
				w.kinds[k] = true
			}
			root(x.Call.Args[0], map[ssa.Value]bool{})
		case "copy":
			if s, ok := x.Call.Args[0].Type().Underlying().(*types.Slice); ok {
				for _, k := range cellKinds(s.Elem()) {
					w.kinds[k] = true
				}
			}
			root(x.Call.Args[0], map[ssa.Value]bool{})
		case "delete":
			w.kinds["int"] = true
			root(x.Call.Args[0], map[ssa.Value]bool{})
		}
		return
	}
	w.allocs = true
	callee := x.Call.StaticCallee()
	if callee == nil {
		// dynamic call: interface method contracts decide; conservatively pure if declared, else unknown
		if mc := fr.u.v.ifaceContract(&x.Call); mc != nil && mc.ModSet && len(mc.Modifies) == 0 {
			return
		}
		if ci := fr.closureTarget(x.Call.Value); ci != nil {
			return // closures are required to be pure (checked when verified)
		}
		w.unknown = true
		for _, k := range allKindsNow() {
			w.kinds[k] = true
		}
		return
	}
	name := fr.u.v.prog.names[callee]
	if c := fr.u.v.lib.Contracts[name]; c != nil && c.ModSet && !c.Inline {
		if len(c.Modifies) == 0 {
			return
		}
		// map modifies targets to argument roots
		for _, m := range c.Modifies {
			if m.Any != "" {
				if w.full == nil {
					w.full = map[string]bool{}
				}
				for _, k := range anyFieldKinds(m.Any) {
					w.full[k] = true
				}
				continue
			}
			pn, kinds := modifiesRootParam(callee, m)
			for _, k := range kinds {
				w.kinds[k] = true
			}
			found := false
			for i, p := range callee.Params {
				if p.Name() == pn {
					root(x.Call.Args[i], map[ssa.Value]bool{})
					found = true
				}
			}
			if !found {
				w.unknown = true
			}
		}
		return
	}
	if ext := fr.u.v.externalModel(name); ext != nil {
		if ext.pure {
			return
		}
		for _, i := range ext.writesArgs {
			root(x.Call.Args[i], map[ssa.Value]bool{})
		}
		for _, k := range ext.kinds {
			w.kinds[k] = true
		}
		return
	}
	if fr.u.v.prog.inRepo(callee) && len(callee.Blocks) > 0 {
		// to be inlined: scan its body, mapping its parameters to our arguments
		fr.scanCalleeWrites(callee, x.Call.Args, l, w, root, 0)
		return
	}
	w.unknown = true
	for _, k := range allKindsNow() {
		w.kinds[k] = true
	}
}

// addrKinds: heap kinds written by a store through addr.
func addrKinds(addr ssa.Value) []string {
	switch a := addr.(type) {
	case *ssa.FieldAddr:
		nt := a.X.Type().Underlying().(*types.Pointer).Elem()
		if st, ok := nt.Underlying().(*types.Struct); ok {
			return fieldKinds(nt, st, a.Field)
		}
	case *ssa.IndexAddr:
		if fa, ok := a.X.(*ssa.FieldAddr); ok {
			ks := addrKinds(fa)
			if pt, ok := fa.Type().Underlying().(*types.Pointer); ok {
				if ar, ok := pt.Elem().Underlying().(*types.Array); ok {
					return ks[:sizeOf(ar.Elem())]
				}
			}
		}
	}
	return cellKinds(addr.Type().Underlying().(*types.Pointer).Elem())
}

func (fr *Frame) scanCalleeWrites(callee *ssa.Function, args []ssa.Value, l *Loop, w *loopWriteInfo, root func(ssa.Value, map[ssa.Value]bool), depth int) {
	if depth > 4 {
		w.unknown = true
		return
	}
	var croot func(v ssa.Value, seen map[ssa.Value]bool)
	croot = func(v ssa.Value, seen map[ssa.Value]bool) {
		if seen[v] {
			return
		}
		seen[v] = true
		switch x := v.(type) {
		case *ssa.Parameter:
			for i, p := range callee.Params {
				if p == x {
					root(args[i], map[ssa.Value]bool{})
				}
			}
		case *ssa.IndexAddr:
			croot(x.X, seen)
		case *ssa.FieldAddr:
			croot(x.X, seen)
		case *ssa.Slice:
			croot(x.X, seen)
		case *ssa.Phi:
			for _, e := range x.Edges {
				croot(e, seen)
			}
		case *ssa.Alloc, *ssa.MakeSlice, *ssa.Const:
		case *ssa.Call:
			if b, ok := x.Call.Value.(*ssa.Builtin); ok && b.Name() == "append" {
				croot(x.Call.Args[0], seen)
				return
			}
			w.unknown = true
		default:
			w.unknown = true
		}
	}
	for _, b := range callee.Blocks {
		for _, in := range b.Instrs {
			switch x := in.(type) {
			case *ssa.Store:
				for _, k := range addrKinds(x.Addr) {
					w.kinds[k] = true
				}
				croot(x.Addr, map[ssa.Value]bool{})
			case *ssa.Call:
				if bi, ok := x.Call.Value.(*ssa.Builtin); ok {
					if bi.Name() == "append" || bi.Name() == "copy" {
						var el types.Type
						if s, ok := x.Call.Args[0].Type().Underlying().(*types.Slice); ok {
							el = s.Elem()
						}
						if el != nil {
							for _, k := range cellKinds(el) {
								w.kinds[k] = true
							}
						}
						croot(x.Call.Args[0], map[ssa.Value]bool{})
					}
					continue
				}
				c2 := x.Call.StaticCallee()
				if c2 == nil {
					w.unknown = true
					continue
				}
				n2 := fr.u.v.prog.names[c2]
				if c := fr.u.v.lib.Contracts[n2]; c != nil && c.ModSet && len(c.Modifies) == 0 {
					continue
				}
				if ext := fr.u.v.externalModel(n2); ext != nil && ext.pure {
					continue
				}
				w.unknown = true
			}
		}
	}
}

// modifiesRootParam: the parameter a modifies-target is rooted at, and the heap kinds it covers
// (computed from the static types along the access path).
func modifiesRootParam(fn *ssa.Function, m Clause) (string, []string) {
	if m.Any != "" {
		return "", anyFieldKinds(m.Any)
	}
	var rootName string
	var typeOf func(e Expr) types.Type
	typeOf = func(e Expr) types.Type {
		switch x := e.(type) {
		case *EIdent:
			rootName = x.Name
			for _, p := range fn.Params {
				if p.Name() == x.Name {
					return p.Type()
				}
			}
		case *ESel:
			if x.Name == "$all" || x.Name == "$obj" {
				return typeOf(x.X)
			}
			t := typeOf(x.X)
			if t == nil {
				return nil
			}
			if p, ok := t.Underlying().(*types.Pointer); ok {
				t = p.Elem()
			}
			if st, ok := t.Underlying().(*types.Struct); ok {
				for i := 0; i < st.NumFields(); i++ {
					if st.Field(i).Name() == x.Name {
						return st.Field(i).Type()
					}
				}
			}
		case *EIndex:
			t := typeOf(x.X)
			if t == nil {
				return nil
			}
			switch u := t.Underlying().(type) {
			case *types.Slice:
				return u.Elem()
			case *types.Array:
				return u.Elem()
			}
		}
		return nil
	}
	exact := func() []string {
		s, ok := m.E.(*ESel)
		if !ok {
			return nil
		}
		bt := typeOf(s.X)
		if bt == nil {
			return nil
		}
		switch s.Name {
		case "$all":
			if sl, ok := bt.Underlying().(*types.Slice); ok {
				return cellKinds(sl.Elem())
			}
			if p, ok := bt.Underlying().(*types.Pointer); ok {
				return cellKinds(p.Elem())
			}
		case "$obj":
			if p, ok := bt.Underlying().(*types.Pointer); ok {
				return cellKinds(p.Elem())
			}
			if _, ok := bt.Underlying().(*types.Map); ok {
				return []string{"int"} // the ghost entry count
			}
		default:
			nt := bt
			if p, ok := nt.Underlying().(*types.Pointer); ok {
				nt = p.Elem()
			}
			if st, ok := nt.Underlying().(*types.Struct); ok {
				for i := 0; i < st.NumFields(); i++ {
					if st.Field(i).Name() == s.Name {
						return fieldKinds(nt, st, i)
					}
				}
			}
		}
		return nil
	}
	ks := exact()
	if ks == nil {
		typeOf(m.E)
		ks = allKindsNow()
	}
	return rootName, ks
}

func identName(d *ssa.DebugRef) string {
	type namer interface{ String() string }
	if id, ok := d.Expr.(interface{ End() token.Pos }); ok {
		_ = id
	}
	return exprName(d.Expr)
}

// ---- block execution

func (fr *Frame) execBlock(b *ssa.BasicBlock, edges []*Edge) {
	edges = liveEdges(edges)
	if len(edges) == 0 {
		return
	}
	var conds []*Term
	var sts []*State
	for _, e := range edges {
		conds = append(conds, e.cond)
		sts = append(sts, e.st)
	}
	fr.reach = Or(conds...)
	fr.st = mergeStates(conds, sts)
	fr.blk = b
	// merge environments
	env := make(map[ssa.Value]*Val, len(edges[0].env)+8)
	for k, v := range edges[0].env {
		env[k] = v
	}
	for i := 1; i < len(edges); i++ {
		for k, v := range edges[i].env {
			if o, ok := env[k]; ok {
				if o != v {
					env[k] = mergeVals(edges[i].cond, v, o)
				}
			} else {
				env[k] = v
			}
		}
	}
	// φ-nodes
	cnt := map[*ssa.BasicBlock]int{}
	idxs := make([]int, len(edges))
	for i, e := range edges {
		if e.from == nil {
			idxs[i] = -1
			continue
		}
		idxs[i] = predIndex(b, e.from, cnt[e.from])
		cnt[e.from]++
	}
	for _, p := range phisOf(b) {
		if edges[0].from == nil {
			// loop head entered from havoc: φ values are preset in env
			continue
		}
		var r *Val
		for i := len(edges) - 1; i >= 0; i-- {
			v := fr.edgeVal(edges[i], p.Edges[idxs[i]])
			v = fr.coerceForPhi(p, v)
			if r == nil {
				r = v
			} else {
				r = mergeVals(edges[i].cond, v, r)
			}
		}
		env[p] = r
	}
	fr.env = env
	for _, in := range b.Instrs {
		fr.exec(in)
		if fr.reach == False {
			return
		}
	}
}

func (fr *Frame) coerceForPhi(p *ssa.Phi, v *Val) *Val {
	if v.K == VScalar && isGoInt(p.Type()) {
		want := IntS
		if fr.fi.BVInts[p] {
			want = BVS(64)
		}
		if v.S.S != want {
			n := *v
			n.S = coerceSort(v.S, want, true)
			return &n
		}
	}
	return v
}

func (fr *Frame) get(v ssa.Value) *Val {
	switch x := v.(type) {
	case *ssa.Const:
		return fr.constVal(x)
	case *ssa.Global:
		return &Val{K: VPtr, T: x.Type(), Ref: fr.u.v.globalRef(x), Off: IntLit(0)}
	case *ssa.Function:
		return &Val{K: VFunc, T: x.Type(), S: IntLit(fr.u.v.typeTag(types.NewPointer(x.Type())) + 1000), Fn: &closureInfo{fn: x}}
	case *ssa.Builtin:
		unsup("builtin %s used as value", x.Name())
	}
	r := fr.env[v]
	if r == nil {
		unsup("value %s (%T) undefined in %s", v.Name(), v, fr.fn.Name())
	}
	return r
}

func (fr *Frame) set(v ssa.Value, val *Val) { fr.env[v] = val }

func (fr *Frame) constVal(c *ssa.Const) *Val {
	t := c.Type()
	if c.Value == nil {
		if bt, ok := t.Underlying().(*types.Basic); ok && bt.Kind() == types.UntypedNil {
			return &Val{K: VPtr, T: t, Ref: IntLit(0), Off: IntLit(0)}
		}
		return zeroVal(t)
	}
	switch c.Value.Kind() {
	case constant.Bool:
		return &Val{K: VScalar, T: t, S: BoolT(constant.BoolVal(c.Value))}
	case constant.String:
		s := constant.StringVal(c.Value)
		return &Val{K: VString, T: t, Ref: fr.u.v.strConstRef(s), Off: IntLit(0), Len: IntLit(int64(len(s)))}
	case constant.Int:
		bi, _ := new(big.Int).SetString(c.Value.ExactString(), 10)
		if bt, ok := t.Underlying().(*types.Basic); ok && bt.Info()&types.IsFloat != 0 {
			f, _ := constant.Float64Val(c.Value)
			return &Val{K: VScalar, T: t, S: fpLit(f)}
		}
		if isGoInt(t) {
			return &Val{K: VScalar, T: t, S: IntBig(bi)}
		}
		return &Val{K: VScalar, T: t, S: BVBig(bi, bvWidth(t))}
	case constant.Float:
		f, _ := constant.Float64Val(c.Value)
		return &Val{K: VScalar, T: t, S: fpLit(f)}
	}
	unsup("constant %v", c)
	return nil
}

func fpLit(f float64) *Term {
	bits := fmt.Sprintf("%064b", mathFloat64bits(f))
	return FPOp(fmt.Sprintf("fp #b%s #b%s #b%s", bits[0:1], bits[1:12], bits[12:64]), FPS)
}

// ---- finishing: postconditions

func (fr *Frame) finish() {
	u := fr.u
	c := u.contract
	rets := fr.rets
	if len(rets) == 0 {
		return
	}
	for i, r := range rets {
		_ = i
		if c == nil {
			continue
		}
		env := fr.contractEnv(fr.params, r.vals, r.st, fr.entry)
		if r.env != nil {
			base := env.resolve
			renv, rblk := r.env, r.blk
			env.resolve = func(name string, cur *Env) *CV {
				if strings.HasPrefix(name, "$ret") && strings.Contains(name, "_") {
					if v := fr.resolveLocal(name, rblk, renv, cur.st); v != nil {
						return v
					}
				}
				// $loc_<name>: value of a local variable at this return
				if strings.HasPrefix(name, "$loc_") {
					ln := name[len("$loc_"):]
					if v := fr.resolveLocal(ln, rblk, renv, cur.st); v != nil {
						return v
					}
					if alt := fr.u.v.renamedLocal(fr.fn, ln); alt != "" {
						ln = alt
					}
					// not yet defined on the way to this return: an arbitrary value of its type (the clause must guard it)
					for _, b := range fr.fn.Blocks {
						for _, in := range b.Instrs {
							switch d := in.(type) {
							case *ssa.DebugRef:
								if id, ok := d.Expr.(*ast.Ident); ok && id.Name == ln && !d.IsAddr {
									return cvOfVal(freshVal(d.X.Type(), "undef!"+ln))
								}
							case *ssa.Phi:
								if d.Comment == ln {
									return cvOfVal(freshVal(d.Type(), "undef!"+ln))
								}
							}
						}
					}
				}
				return base(name, cur)
			}
		}
		for k, en := range c.Ensures {
			if strings.Contains(en.Src, "unique(result") && i == 0 {
				for _, b := range fr.fn.Blocks {
					for _, in := range b.Instrs {
						if rt, ok := in.(*ssa.Return); ok {
							for _, rv := range rt.Results {
								if _, isSlice := rv.Type().Underlying().(*types.Slice); isSlice && !u.v.uniqueDef(rv, 0) {
									u.errs = append(u.errs, fmt.Sprintf("%s: unique(result) not established syntactically for %s in %s (contract.attach)", en.Where, rv.Name(), u.name))
								}
							}
						}
					}
				}
			}
			t, err := env.evalBool(en.E)
			if err != nil {
				u.errs = append(u.errs, fmt.Sprintf("%s: ensures %s: %v (contract.attach)", en.Where, en.Src, err))
				continue
			}
			name := fmt.Sprintf("%s#ensures.%d@ret%d", u.name, k+1, r.ord)
			u.counters[name]++
			if n := u.counters[name]; n > 1 {
				name = fmt.Sprintf("%s@%d", name, n)
			}
			o := &Obligation{Name: name, Kind: "ensures", Fn: u.name, Hyps: r.hyps(u), Goal: Implies(r.cond, t), Pos: en.Where, Desc: en.Src, Inputs: u.inputs, Unit: u, Opaque: u.revealFor(name), Fuel: u.fuel}
			if o.Goal == True {
				o.Trivial = true
			}
			u.obls = append(u.obls, o)
		}
	}
	// cover: some return is reachable
	var cs []*Term
	for _, r := range rets {
		cs = append(cs, r.cond)
	}
	u.covers = append(u.covers, &Obligation{Name: u.name + "#cover.return", Kind: "cover", Fn: u.name, Hyps: append(append([]*Term{}, u.facts...), Or(cs...)), Goal: False, Cover: true, Unit: u, Opaque: u.opaque, Fuel: u.fuel})
}

func (r retEdge) hyps(u *Unit) []*Term { return append([]*Term{}, u.facts[:r.nf]...) }

func debugf(f string, a ...interface{}) {
	if os.Getenv("GOVC_DEBUG") != "" {
		fmt.Fprintf(os.Stderr, f+"\n", a...)
	}
}

// globalSliceInit: constant elements of `var g = []T{...}`.
func (p *Program) globalSliceInit(g *ssa.Global, elem types.Type) ([]*Term, int64, bool) {
	obj, ok := g.Object().(*types.Var)
	if !ok {
		return nil, 0, false
	}
	for _, pk := range p.allPackages() {
		if pk.Types != obj.Pkg() {
			continue
		}
		for id, o := range pk.TypesInfo.Defs {
			if o != obj {
				continue
			}
			for _, f := range pk.Syntax {
				if f.Pos() <= id.Pos() && id.Pos() <= f.End() {
					vs := findValueSpec(f, id)
					if vs == nil {
						return nil, 0, false
					}
					for i, n := range vs.Names {
						if n == id && i < len(vs.Values) {
							cl, ok := vs.Values[i].(*ast.CompositeLit)
							if !ok {
								return nil, 0, false
							}
							n := int64(len(cl.Elts))
							arrT := types.NewArray(elem, n)
							cells, ok := constCells(pk.TypesInfo, cl, arrT)
							return cells, n, ok
						}
					}
				}
			}
		}
	}
	return nil, 0, false
}

// scanFieldAddrs: a struct field gets its own heap component only if no
// function in the loaded program lets the field's address escape (every
// FieldAddr of it is used for an immediate load or store, possibly through a
// constant-index IndexAddr for array fields).
func (v *Verifier) scanFieldAddrs() {
	directUse := func(val ssa.Value) bool {
		for _, r := range *val.Referrers() {
			switch u := r.(type) {
			case *ssa.DebugRef:
			case *ssa.UnOp:
				if u.Op != token.MUL {
					return false
				}
			case *ssa.Store:
				if u.Addr != val {
					return false
				}
			default:
				return false
			}
		}
		return true
	}
	for fn := range v.prog.names {
		for _, b := range fn.Blocks {
			for _, in := range b.Instrs {
				fa, ok := in.(*ssa.FieldAddr)
				if !ok {
					continue
				}
				pt, ok := fa.X.Type().Underlying().(*types.Pointer)
				if !ok {
					continue
				}
				tn := structName(pt.Elem())
				st, ok := pt.Elem().Underlying().(*types.Struct)
				if !ok || tn == "" {
					continue
				}
				key := tn + "." + st.Field(fa.Field).Name()
				if fieldAddrEscapes[key] {
					continue
				}
				okUse := true
				for _, r := range *fa.Referrers() {
					switch u := r.(type) {
					case *ssa.DebugRef:
					case *ssa.UnOp:
						if u.Op != token.MUL {
							okUse = false
						}
					case *ssa.Store:
						if u.Addr != ssa.Value(fa) {
							okUse = false
						}
					case *ssa.IndexAddr:
						if !directUse(u) {
							okUse = false
						}
					default:
						okUse = false
					}
				}
				if !okUse {
					fieldAddrEscapes[key] = true
				}
			}
		}
	}
	fieldTagging = true
	layoutCache = map[types.Type][]string{}
}

// addGlobalFacts: assumed facts about call-initialised, never-written globals of the packages this function touches.
func (v *Verifier) addGlobalFacts(u *Unit, fn *ssa.Function, st *State) {
	for _, gf := range v.lib.GlobalFacts {
		var pkg *ssa.Package
		for _, p := range v.prog.Prog.AllPackages() {
			if shortPkg(p.Pkg.Path()) == gf.Pkg {
				pkg = p
			}
		}
		if pkg == nil {
			continue
		}
		env := &Env{vars: map[string]*CV{}, st: st, lib: v.lib, prog: v.prog, unit: u}
		env.resolve = func(name string, cur *Env) *CV {
			if m, ok := pkg.Members[name].(*ssa.Global); ok {
				if v.storedGlobals[m] {
					return nil
				}
				ref := v.globalRef(m)
				t := m.Type().(*types.Pointer).Elem()
				if _, isArr := t.Underlying().(*types.Array); isArr {
					return cvOfVal(&Val{K: VPtr, T: m.Type(), Ref: ref, Off: IntLit(0)})
				}
				gv := cur.st.load(t, ref, IntLit(0))
				u.facts = append(u.facts, validFacts(gv, u.next0, nil)...)
				registerBelow(gv, u.next0)
				return cvOfVal(gv)
			}
			return nil
		}
		t, err := env.evalBool(gf.C.E)
		if err != nil {
			// a fact that no longer evaluates is simply not assumed; functions of its own package report it
			if fn.Pkg == pkg || (fn.Parent() != nil && fn.Parent().Pkg == pkg) {
				u.errs = append(u.errs, fmt.Sprintf("%s: globalfact %s: %v", gf.C.Where, gf.C.Src, err))
			}
			continue
		}
		u.facts = append(u.facts, t)
		u.assumed["assumed initial value of package variables ("+gf.C.Where+"): "+gf.C.Src] = true
	}
}

// prescanKinds: every heap kind the repository's code can touch is known before
// any function is translated, so that "unknown writes" (havoc of all kinds) does
// not depend on which types happen to have been met so far.
func (v *Verifier) prescanKinds() {
	mark := func(t types.Type) {
		defer func() { recover() }()
		cellKinds(t)
		if p, ok := t.Underlying().(*types.Pointer); ok {
			cellKinds(p.Elem())
		}
		if s, ok := t.Underlying().(*types.Slice); ok {
			cellKinds(s.Elem())
		}
	}
	var names []string
	for n := range v.prog.byName {
		names = append(names, n)
	}
	sort.Strings(names)
	for _, n := range names {
		fn := v.prog.byName[n]
		if !v.prog.inRepo(fn) {
			continue
		}
		for _, p := range fn.Params {
			mark(p.Type())
		}
		for _, b := range fn.Blocks {
			for _, in := range b.Instrs {
				if val, ok := in.(ssa.Value); ok && val.Type() != nil {
					if _, isTuple := val.Type().(*types.Tuple); !isTuple {
						mark(val.Type())
					}
				}
			}
		}
	}
}

// revealFor: the opaque set for one obligation (revealin clauses lift opacity for named obligations).
func (u *Unit) revealFor(name string) map[string]bool {
	if u.contract == nil || len(u.contract.RevealIn) == 0 {
		return u.opaque
	}
	op := u.opaque
	for suf, fs := range u.contract.RevealIn {
		if strings.HasSuffix(name, "#"+suf) {
			cp := map[string]bool{}
			for k, v := range op {
				cp[k] = v
			}
			for _, f := range fs {
				delete(cp, f)
			}
			op = cp
		}
	}
	return op
}
