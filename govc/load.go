// load.go: load /repo (+deps) into go/ssa with the verif tag; function naming; loop forest.
package main

import (
	"fmt"
	"go/ast"
	"go/token"
	"go/types"
	"os"
	"sort"
	"strings"

	"golang.org/x/tools/go/packages"
	"golang.org/x/tools/go/ssa"
	"golang.org/x/tools/go/ssa/ssautil"
)

const repoMod = "github.com/gcash/bchutil"

type Program struct {
	Dir    string
	Fset   *token.FileSet
	Prog   *ssa.Program
	Pkgs   []*packages.Package
	SSA    []*ssa.Package
	byName map[string]*ssa.Function
	names  map[*ssa.Function]string
	files  map[string]*ast.File
}

func loadProgram(dir string, patterns []string) (*Program, error) {
	cfg := &packages.Config{
		Mode:       packages.LoadAllSyntax,
		Dir:        dir,
		BuildFlags: []string{"-tags=verif"},
		Env:        append(os.Environ(), "GOFLAGS=-mod=mod", "GOPROXY=off", "GOSUMDB=off", "GOTOOLCHAIN=local"),
	}
	if len(patterns) == 0 {
		patterns = []string{"./..."}
	}
	pkgs, err := packages.Load(cfg, patterns...)
	if err != nil {
		return nil, err
	}
	nerr := 0
	packages.Visit(pkgs, nil, func(p *packages.Package) {
		for _, e := range p.Errors {
			if strings.HasPrefix(p.PkgPath, repoMod) {
				fmt.Fprintf(os.Stderr, "load error: %s: %v\n", p.PkgPath, e)
				nerr++
			}
		}
	})
	if nerr > 0 {
		return nil, fmt.Errorf("%d package errors (build with -tags verif failed)", nerr)
	}
	prog, spkgs := ssautil.AllPackages(pkgs, ssa.GlobalDebug|ssa.InstantiateGenerics)
	prog.Build()
	p := &Program{Dir: dir, Prog: prog, Pkgs: pkgs, SSA: spkgs, byName: map[string]*ssa.Function{}, names: map[*ssa.Function]string{}, files: map[string]*ast.File{}}
	if len(pkgs) > 0 {
		p.Fset = pkgs[0].Fset
	}
	for fn := range ssautil.AllFunctions(prog) {
		n := funcName(fn)
		p.names[fn] = n
		if fn.Synthetic == "" || strings.HasPrefix(fn.Synthetic, "package init") {
			if _, dup := p.byName[n]; !dup {
				p.byName[n] = fn
			}
		}
	}
	return p, nil
}

func shortPkg(path string) string {
	if path == repoMod {
		return "bchutil"
	}
	if strings.HasPrefix(path, repoMod+"/") {
		r := strings.TrimPrefix(path, repoMod+"/")
		if r == "gcs/builder" {
			return "builder"
		}
		return r
	}
	return path
}

// funcName: "bchutil.polyMod", "bloom.(*Filter).hash", "math/big.(*Int).SetBytes", "gcs.BuildGCSFilter$1"
func funcName(fn *ssa.Function) string {
	if fn.Parent() != nil {
		return funcName(fn.Parent()) + strings.TrimPrefix(fn.Name(), fn.Parent().Name())
	}
	if recv := fn.Signature.Recv(); recv != nil {
		t := recv.Type()
		ptr := ""
		if p, ok := t.(*types.Pointer); ok {
			t = p.Elem()
			ptr = "*"
		}
		if n, ok := t.(*types.Named); ok && n.Obj().Pkg() != nil {
			return fmt.Sprintf("%s.(%s%s).%s", shortPkg(n.Obj().Pkg().Path()), ptr, n.Obj().Name(), fn.Name())
		}
		return fmt.Sprintf("(%s).%s", t, fn.Name())
	}
	if fn.Pkg != nil {
		return shortPkg(fn.Pkg.Pkg.Path()) + "." + fn.Name()
	}
	if fn.Object() != nil && fn.Object().Pkg() != nil {
		return shortPkg(fn.Object().Pkg().Path()) + "." + fn.Name()
	}
	return fn.String()
}

func (p *Program) inRepo(fn *ssa.Function) bool {
	var pk *types.Package
	if fn.Pkg != nil {
		pk = fn.Pkg.Pkg
	} else if fn.Object() != nil {
		pk = fn.Object().Pkg()
	} else if fn.Parent() != nil {
		return p.inRepo(fn.Parent())
	}
	return pk != nil && (pk.Path() == repoMod || strings.HasPrefix(pk.Path(), repoMod+"/"))
}

func (p *Program) pos(ps token.Pos) string {
	if !ps.IsValid() {
		return "-"
	}
	q := p.Fset.Position(ps)
	return fmt.Sprintf("%s:%d", strings.TrimPrefix(q.Filename, p.Dir+"/"), q.Line)
}

// ---- loops

type Loop struct {
	Head    *ssa.BasicBlock
	Blocks  map[*ssa.BasicBlock]bool
	Parent  *Loop
	Ordinal int // 1-based, source order of the for/range statement
	Pos     token.Pos
}

type FuncInfo struct {
	Fn      *ssa.Function
	RPO     []*ssa.BasicBlock
	rpoIdx  map[*ssa.BasicBlock]int
	Loops   map[*ssa.BasicBlock]*Loop // by head
	LoopOf  map[*ssa.BasicBlock]*Loop // innermost loop containing block
	ByOrd   map[int]*Loop
	BVInts  map[ssa.Value]bool
	Recurse bool
}

func dominates(a, b *ssa.BasicBlock) bool { return a.Dominates(b) }

func analyze(fn *ssa.Function) *FuncInfo {
	fi := &FuncInfo{Fn: fn, rpoIdx: map[*ssa.BasicBlock]int{}, Loops: map[*ssa.BasicBlock]*Loop{}, LoopOf: map[*ssa.BasicBlock]*Loop{}, ByOrd: map[int]*Loop{}}
	if len(fn.Blocks) == 0 {
		return fi
	}
	// back edges: p -> h where h dominates p
	for _, b := range fn.Blocks {
		for _, s := range b.Succs {
			if dominates(s, b) {
				l := fi.Loops[s]
				if l == nil {
					l = &Loop{Head: s, Blocks: map[*ssa.BasicBlock]bool{s: true}}
					fi.Loops[s] = l
				}
				// natural loop: all blocks that reach b without passing h
				stack := []*ssa.BasicBlock{b}
				for len(stack) > 0 {
					x := stack[len(stack)-1]
					stack = stack[:len(stack)-1]
					if l.Blocks[x] {
						continue
					}
					l.Blocks[x] = true
					stack = append(stack, x.Preds...)
				}
			}
		}
	}
	// nesting: parent = smallest strictly larger loop containing head
	var loops []*Loop
	for _, l := range fi.Loops {
		loops = append(loops, l)
	}
	sort.Slice(loops, func(i, j int) bool { return len(loops[i].Blocks) < len(loops[j].Blocks) })
	for i, l := range loops {
		for _, m := range loops[i+1:] {
			if m != l && m.Blocks[l.Head] && len(m.Blocks) > len(l.Blocks) {
				l.Parent = m
				break
			}
		}
	}
	for _, b := range fn.Blocks {
		for _, l := range loops { // smallest first
			if l.Blocks[b] {
				fi.LoopOf[b] = l
				break
			}
		}
	}
	// ordinals: by position of the loop statement. Use the head block's first
	// instruction position fallback to block comment order.
	for _, l := range loops {
		l.Pos = loopPos(l)
	}
	sort.Slice(loops, func(i, j int) bool {
		if loops[i].Pos != loops[j].Pos {
			return loops[i].Pos < loops[j].Pos
		}
		return loops[i].Head.Index < loops[j].Head.Index
	})
	for i, l := range loops {
		l.Ordinal = i + 1
		fi.ByOrd[i+1] = l
	}
	// RPO ignoring back edges
	seen := map[*ssa.BasicBlock]bool{}
	var post []*ssa.BasicBlock
	var dfs func(b *ssa.BasicBlock)
	dfs = func(b *ssa.BasicBlock) {
		seen[b] = true
		for _, s := range b.Succs {
			if !seen[s] && !dominates(s, b) {
				dfs(s)
			}
		}
		post = append(post, b)
	}
	dfs(fn.Blocks[0])
	for i := len(post) - 1; i >= 0; i-- {
		fi.rpoIdx[post[i]] = len(fi.RPO)
		fi.RPO = append(fi.RPO, post[i])
	}
	fi.BVInts = inferBVInts(fn)
	return fi
}

// loopPos: source position of the for/range statement owning this loop,
// found as the smallest enclosing *ast.ForStmt / *ast.RangeStmt of the
// positions of instructions in the loop's blocks.
func loopPos(l *Loop) token.Pos {
	fn := l.Head.Parent()
	var body ast.Node
	switch s := fn.Syntax().(type) {
	case *ast.FuncDecl:
		body = s.Body
	case *ast.FuncLit:
		body = s.Body
	}
	if body == nil {
		return token.Pos(l.Head.Index)
	}
	// candidate statements
	type cand struct {
		pos, end token.Pos
		bodyPos  token.Pos
	}
	var cands []cand
	ast.Inspect(body, func(n ast.Node) bool {
		switch s := n.(type) {
		case *ast.FuncLit:
			if n != body && s.Body != body {
				return false
			}
		case *ast.ForStmt:
			cands = append(cands, cand{s.Pos(), s.End(), s.Body.Pos()})
		case *ast.RangeStmt:
			cands = append(cands, cand{s.Pos(), s.End(), s.Body.Pos()})
		}
		return true
	})
	// positions in loop blocks
	var ps []token.Pos
	for b := range l.Blocks {
		for _, in := range b.Instrs {
			if p := in.Pos(); p.IsValid() {
				ps = append(ps, p)
			}
			if d, ok := in.(*ssa.DebugRef); ok && d.Expr != nil {
				ps = append(ps, d.Expr.Pos())
			}
		}
	}
	// the loop statement is the smallest candidate containing all positions
	best := cand{}
	for _, c := range cands {
		ok := len(ps) > 0
		for _, p := range ps {
			if p < c.pos || p > c.end {
				ok = false
				break
			}
		}
		if ok && (best.pos == 0 || (c.end-c.pos) < (best.end-best.pos)) {
			best = c
		}
	}
	if best.pos != 0 {
		return best.pos
	}
	if len(ps) > 0 {
		m := ps[0]
		for _, p := range ps {
			if p < m {
				m = p
			}
		}
		return m
	}
	return token.NoPos
}

// inferBVInts: Go `int` values that take part in bit operations are kept as
// 64-bit words; all other `int` values are mathematical integers.
func inferBVInts(fn *ssa.Function) map[ssa.Value]bool {
	bv := map[ssa.Value]bool{}
	isInt := func(v ssa.Value) bool { return isGoInt(v.Type()) }
	mark := func(v ssa.Value) bool {
		if _, c := v.(*ssa.Const); c {
			return false
		}
		if isInt(v) && !bv[v] {
			bv[v] = true
			return true
		}
		return false
	}
	changed := true
	for changed {
		changed = false
		for _, b := range fn.Blocks {
			for _, in := range b.Instrs {
				switch x := in.(type) {
				case *ssa.BinOp:
					switch x.Op {
					case token.AND, token.OR, token.XOR, token.AND_NOT:
						if isInt(x) {
							changed = mark(x) || changed
							changed = mark(x.X) || changed
							changed = mark(x.Y) || changed
						}
					case token.SHL, token.SHR:
						if isInt(x) {
							if _, c := x.Y.(*ssa.Const); !c || true {
								changed = mark(x) || changed
								changed = mark(x.X) || changed
							}
						}
					case token.ADD, token.SUB, token.MUL:
						if isInt(x) && (bv[x] || bv[x.X] || bv[x.Y]) {
							changed = mark(x) || changed
							changed = mark(x.X) || changed
							changed = mark(x.Y) || changed
						}
					}
				case *ssa.Phi:
					if isInt(x) {
						any := bv[x]
						for _, e := range x.Edges {
							any = any || bv[e]
						}
						if any {
							changed = mark(x) || changed
							for _, e := range x.Edges {
								changed = mark(e) || changed
							}
						}
					}
				case *ssa.UnOp:
					if x.Op == token.XOR && isInt(x) {
						changed = mark(x) || changed
						changed = mark(x.X) || changed
					}
				}
			}
		}
	}
	return bv
}
