package main

import (
	"flag"
	"fmt"
	"os"
	"sort"
	"strings"
	"time"
)

func main() {
	if len(os.Args) < 2 {
		fmt.Fprintln(os.Stderr, "usage: govc <fn|check|selftest> ...")
		os.Exit(2)
	}
	switch os.Args[1] {
	case "fn":
		cmdFn(os.Args[2:])
	case "check":
		os.Exit(cmdCheck(os.Args[2:]))
	case "lemmas":
		cmdLemmas(os.Args[2:])
	case "sweep":
		cmdSweep(os.Args[2:])
	case "hints":
		cmdHints(os.Args[2:])
	default:
		fmt.Fprintln(os.Stderr, "unknown command", os.Args[1])
		os.Exit(2)
	}
}

func setup(repo, specDir string) (*Verifier, error) {
	t0 := time.Now()
	prog, err := loadProgram(repo, nil)
	if err != nil {
		return nil, err
	}
	lib := newSpecLib()
	if err := lib.loadDir(specDir); err != nil {
		return nil, err
	}
	if err := lib.loadRepoContracts(repo); err != nil {
		return nil, err
	}
	if err := lib.build(); err != nil {
		return nil, err
	}
	loadHints(specDir)
	v := newVerifier(prog, lib)
	debugf("setup %.1fs", time.Since(t0).Seconds())
	return v, nil
}

// cmdFn: verify the named functions and print every obligation's outcome (developer tool).
func cmdFn(args []string) {
	fs := flag.NewFlagSet("fn", flag.ExitOnError)
	repo := fs.String("repo", "/repo", "repository")
	spec := fs.String("spec", "/verif/spec", "spec dir")
	to := fs.Int("t", 10, "timeout seconds")
	verbose := fs.Bool("v", false, "verbose")
	only := fs.String("only", "", "substring filter on obligation names")
	fs.Parse(args)
	v, err := setup(*repo, *spec)
	if err != nil {
		fmt.Fprintln(os.Stderr, "setup:", err)
		os.Exit(2)
	}
	for _, name := range fs.Args() {
		fn := v.prog.byName[name]
		if fn == nil {
			fmt.Printf("no function %s\n", name)
			var cands []string
			for n := range v.prog.byName {
				if strings.Contains(n, name) {
					cands = append(cands, n)
				}
			}
			sort.Strings(cands)
			fmt.Println("  candidates:", cands)
			continue
		}
		t0 := time.Now()
		u := v.verifyIsolated(fn)
		gen := time.Since(t0).Seconds()
		for _, e := range u.errs {
			fmt.Println("  ERROR:", e)
		}
		var obls []*Obligation
		for _, o := range append(u.obls, u.covers...) {
			if *only == "" || strings.Contains(o.Name, *only) {
				obls = append(obls, o)
			}
		}
		rs := v.dischargeAll(obls, *to, false, 16)
		np, nf := 0, 0
		for _, r := range rs {
			switch r.Status {
			case "proved", "trivial":
				np++
				if *verbose {
					fmt.Printf("  ok   %-60s %s %.2fs\n", r.Obl.Name, r.Backend, r.Time)
				}
			default:
				nf++
				fmt.Printf("  %-7s %s  [%s] %s :: %s\n", strings.ToUpper(r.Status), r.Obl.Name, r.Obl.Pos, r.Obl.Desc, r.Backend)
				if len(r.Model) > 0 {
					ks := sortedKeys(r.Model)
					for _, k := range ks {
						fmt.Printf("          %s = %s\n", k, r.Model[k])
					}
				}
				if *verbose {
					fmt.Println("          " + strings.ReplaceAll(r.Output, "\n", "\n          "))
				}
			}
		}
		fmt.Printf("%s: %d obligations, %d discharged, %d not; gen %.2fs total %.2fs\n", name, len(rs), np, nf, gen, time.Since(t0).Seconds())
		for n := range u.notes {
			fmt.Println("  note:", n)
		}
	}
	if smtDir != "" && os.Getenv("GOVC_KEEP") == "" {
		os.RemoveAll(smtDir)
	}
}


// cmdLemmas: prove spec-library lemmas (developer tool).
func cmdLemmas(args []string) {
	fs := flag.NewFlagSet("lemmas", flag.ExitOnError)
	repo := fs.String("repo", "/repo", "repository")
	spec := fs.String("spec", "/verif/spec", "spec dir")
	to := fs.Int("t", 20, "timeout seconds")
	verbose := fs.Bool("v", false, "verbose")
	fs.Parse(args)
	v, err := setup(*repo, *spec)
	if err != nil {
		fmt.Fprintln(os.Stderr, "setup:", err)
		os.Exit(2)
	}
	var obls []*Obligation
	for _, n := range v.lib.LemmaOrd {
		if len(fs.Args()) > 0 {
			ok := false
			for _, a := range fs.Args() {
				if strings.Contains(n, a) {
					ok = true
				}
			}
			if !ok {
				continue
			}
		}
		os, err := v.lemmaObligations(v.lib.Lemmas[n])
		if err != nil {
			fmt.Println("ERROR:", err)
			continue
		}
		obls = append(obls, os...)
	}
	rs := v.dischargeAll(obls, *to, false, 16)
	for _, r := range rs {
		fmt.Printf("  %-8s %-50s %s %.2fs\n", r.Status, r.Obl.Name, r.Backend, r.Time)
		if *verbose && r.Status != "proved" {
			fmt.Println("          " + strings.ReplaceAll(r.Output, "\n", "\n          "))
		}
	}
	if smtDir != "" && os.Getenv("GOVC_KEEP") == "" {
		os.RemoveAll(smtDir)
	}
}

// cmdSweep: generate and discharge obligations for every function of the named packages (developer tool).
func cmdSweep(args []string) {
	fs := flag.NewFlagSet("sweep", flag.ExitOnError)
	repo := fs.String("repo", "/repo", "repository")
	spec := fs.String("spec", "/verif/spec", "spec dir")
	to := fs.Int("t", 5, "timeout seconds")
	fs.Parse(args)
	v, err := setup(*repo, *spec)
	if err != nil {
		fmt.Fprintln(os.Stderr, "setup:", err)
		os.Exit(2)
	}
	var names []string
	for n, fn := range v.prog.byName {
		if !v.prog.inRepo(fn) || len(fn.Blocks) == 0 {
			continue
		}
		for _, p := range fs.Args() {
			if strings.HasPrefix(n, p) {
				names = append(names, n)
			}
		}
	}
	sort.Strings(names)
	for _, n := range names {
		fn := v.prog.byName[n]
		u := v.verifyIsolated(fn)
		rs := v.dischargeAll(u.obls, *to, false, 16)
		bad := 0
		var failed []string
		for _, r := range rs {
			if r.Status != "proved" && r.Status != "trivial" {
				bad++
				failed = append(failed, strings.TrimPrefix(r.Obl.Name, n+"#")+"("+r.Status[:1]+")")
			}
		}
		status := "OK  "
		if bad > 0 || len(u.errs) > 0 {
			status = "FAIL"
		}
		fmt.Printf("%s %-55s obls=%3d bad=%2d %s\n", status, n, len(rs), bad, strings.Join(failed, " "))
		for _, e := range u.errs {
			fmt.Println("       ERR:", e)
		}
	}
	if smtDir != "" {
		os.RemoveAll(smtDir)
	}
}
