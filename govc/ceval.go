// ceval.go: evaluation of contract expressions to SMT terms.
package main

import (
	"fmt"
	"go/types"
	"math/big"
	"strconv"
	"strings"
)

type CK int

const (
	CInt CK = iota
	CBool
	CBV
	CLit // untyped integer literal
	CVal // structured Go value
	CSeq // sequence view: row + offset (+ optional length)
	CFP
	CNil
	CLitC // conditional between untyped literals; takes the sort of its context
)

type CV struct {
	K      CK
	T      *Term
	Signed bool
	Lit    *big.Int
	V      *Val
	Row    *Term
	Off    *Term
	Len    *Term
	A, B   *CV // CLitC branches (T is the condition)
}

func (c *CV) litAs(f func(l *big.Int) *Term) *Term {
	if c.K == CLit {
		return f(c.Lit)
	}
	return Ite(c.T, c.A.litAs(f), c.B.litAs(f))
}

type evalErr string

func efail(f string, a ...interface{}) { panic(evalErr(fmt.Sprintf(f, a...))) }

type Env struct {
	vars    map[string]*CV
	parent  *Env
	st, old *State
	oldNext *Term // `next` at function entry (for fresh())
	lib     *SpecLib
	resolve func(name string, cur *Env) *CV // fallback name resolution (SSA names, globals); cur = the environment doing the lookup
	prog    *Program
	unit    *Unit // when set, heap well-formedness facts of values loaded during evaluation are recorded here
}

// loaded: every reference stored in memory is below the allocation counter of that state (heap well-formedness).
func (e *Env) loaded(v *Val) *Val {
	for _, t := range flatten(v, nil) {
		if t.hasB {
			return v // depends on a bound variable: no ground fact to record
		}
	}
	if e.unit != nil && e.st != nil && e.st.Next != nil {
		e.unit.facts = append(e.unit.facts, validFacts(v, e.st.Next, nil)...)
	}
	return v
}

func (e *Env) child() *Env {
	return &Env{vars: map[string]*CV{}, parent: e, st: e.st, old: e.old, oldNext: e.oldNext, lib: e.lib, resolve: e.resolve, prog: e.prog, unit: e.unit}
}

func (e *Env) lookup(n string) *CV {
	for x := e; x != nil; x = x.parent {
		if v, ok := x.vars[n]; ok {
			return v
		}
	}
	if e.resolve != nil {
		return e.resolve(n, e)
	}
	return nil
}

func cvOfVal(v *Val) *CV {
	if v.K == VScalar {
		switch {
		case v.S.S == BoolS:
			return &CV{K: CBool, T: v.S, V: v}
		case v.S.S == IntS:
			return &CV{K: CInt, T: v.S, V: v}
		case v.S.S.K == SBV:
			return &CV{K: CBV, T: v.S, Signed: isSignedT(v.T), V: v}
		case v.S.S == FPS:
			return &CV{K: CFP, T: v.S, V: v}
		}
	}
	return &CV{K: CVal, V: v}
}

func cvBool(t *Term) *CV { return &CV{K: CBool, T: t} }
func cvInt(t *Term) *CV  { return &CV{K: CInt, T: t} }

func (c *CV) boolTerm() *Term {
	if c.K != CBool {
		efail("expected boolean, got kind %d", c.K)
	}
	return c.T
}

// asInt: mathematical value
func (c *CV) asInt() *Term {
	switch c.K {
	case CInt:
		return c.T
	case CLit, CLitC:
		return c.litAs(func(l *big.Int) *Term { return IntBig(l) })
	case CBV:
		if c.Signed {
			return BV2IntSigned(c.T)
		}
		return BV2Int(c.T)
	}
	efail("expected integer value")
	return nil
}

func (c *CV) asBV(w int) *Term {
	switch c.K {
	case CLit, CLitC:
		return c.litAs(func(l *big.Int) *Term { return BVBig(l, w) })
	case CBV:
		if c.T.S.W == w {
			return c.T
		}
		if c.T.S.W < w {
			if c.Signed {
				return SignExt(w-c.T.S.W, c.T)
			}
			return ZeroExt(w-c.T.S.W, c.T)
		}
		return Extract(w-1, 0, c.T)
	case CInt:
		return Int2BV(w, c.T)
	}
	efail("expected integer value for bit-vector conversion")
	return nil
}

func parseTypeName(s string) (kind string, w int, signed bool, ok bool) {
	switch s {
	case "int":
		return "int", 0, true, true
	case "bool":
		return "bool", 0, false, true
	case "fp", "float64":
		return "fp", 0, false, true
	case "byte":
		return "bv", 8, false, true
	case "uint":
		return "bv", 64, false, true
	}
	if strings.HasPrefix(s, "seq") {
		return s, 0, false, true
	}
	for _, p := range []string{"uint", "u"} {
		if strings.HasPrefix(s, p) {
			if n, err := strconv.Atoi(s[len(p):]); err == nil && n > 0 {
				return "bv", n, false, true
			}
		}
	}
	for _, p := range []string{"int", "i"} {
		if strings.HasPrefix(s, p) {
			if n, err := strconv.Atoi(s[len(p):]); err == nil && n > 0 {
				return "bv", n, true, true
			}
		}
	}
	return "", 0, false, false
}

func seqElemSort(kind string) *Sort {
	switch kind {
	case "seq8", "seq":
		return BVS(8)
	case "seq32":
		return BVS(32)
	case "seq64":
		return BVS(64)
	case "seqint":
		return IntS
	case "seqbool":
		return BoolS
	}
	efail("unknown sequence type %s", kind)
	return nil
}

// coerce a CV to a declared spec type, returning the SMT argument terms.
func (e *Env) coerceTo(c *CV, ty string) []*Term {
	kind, w, _, ok := parseTypeName(ty)
	if !ok {
		efail("unknown type %q", ty)
	}
	switch {
	case kind == "int":
		return []*Term{c.asInt()}
	case kind == "bool":
		return []*Term{c.boolTerm()}
	case kind == "bv":
		return []*Term{c.asBV(w)}
	case kind == "fp":
		if c.K != CFP {
			efail("expected float")
		}
		return []*Term{c.T}
	case strings.HasPrefix(kind, "seq"):
		s := e.asSeq(c)
		if s.Row.S.Elem != seqElemSort(kind) {
			efail("sequence element sort mismatch: want %s have %s", seqElemSort(kind), s.Row.S.Elem)
		}
		return []*Term{s.Row, s.Off}
	}
	efail("coerce to %s", ty)
	return nil
}

// asSeq views a slice / string / array-pointer value as (row, off, len).
func (e *Env) asSeq(c *CV) *CV {
	if c.K == CSeq {
		return c
	}
	if c.K != CVal {
		efail("expected sequence")
	}
	v := c.V
	switch v.K {
	case VSlice:
		el := v.T.Underlying().(*types.Slice).Elem()
		k := scalarKind(el)
		if k == "" {
			efail("sequence view of non-scalar slice %v", v.T)
		}
		return &CV{K: CSeq, Row: e.st.row(k, v.Ref), Off: v.Off, Len: v.Len}
	case VString:
		return &CV{K: CSeq, Row: strRowOf(e.st, v), Off: v.Off, Len: v.Len}
	case VPtr:
		if p, ok := v.T.Underlying().(*types.Pointer); ok {
			if a, ok := p.Elem().Underlying().(*types.Array); ok {
				k := scalarKind(a.Elem())
				if k != "" {
					return &CV{K: CSeq, Row: e.st.row(k, v.Ref), Off: v.Off, Len: IntLit(a.Len())}
				}
			}
		}
	case VTuple:
		if a, ok := v.T.Underlying().(*types.Array); ok && scalarKind(a.Elem()) != "" {
			row := ConstArr(ArrS(IntS, kindSort(scalarKind(a.Elem()))), zeroTerm(scalarKind(a.Elem())))
			for i, x := range v.El {
				row = Store(row, IntLit(int64(i)), x.S)
			}
			return &CV{K: CSeq, Row: row, Off: IntLit(0), Len: IntLit(a.Len())}
		}
	}
	efail("cannot view %v as a sequence", v.T)
	return nil
}

func (e *Env) eval(x Expr) *CV {
	switch x := x.(type) {
	case *EInt:
		return &CV{K: CLit, Lit: x.V}
	case *EBool:
		return cvBool(BoolT(x.B))
	case *ENil:
		return &CV{K: CNil}
	case *EStr:
		efail("string literals are only allowed as arguments of special functions")
	case *EIdent:
		v := e.lookup(x.Name)
		if v == nil {
			efail("unresolved name %q", x.Name)
		}
		return v
	case *EUnary:
		a := e.eval(x.X)
		switch x.Op {
		case "!":
			return cvBool(Not(a.boolTerm()))
		case "-":
			switch a.K {
			case CLit:
				return &CV{K: CLit, Lit: new(big.Int).Neg(a.Lit)}
			case CInt:
				return cvInt(Neg(a.T))
			case CBV:
				return &CV{K: CBV, T: BVNeg(a.T), Signed: a.Signed}
			}
		case "^":
			if a.K == CBV {
				return &CV{K: CBV, T: BVNot(a.T), Signed: a.Signed}
			}
		case "*":
			if a.K == CVal && a.V.K == VPtr {
				pt := a.V.T.Underlying().(*types.Pointer)
				return cvOfVal(e.st.load(pt.Elem(), a.V.Ref, a.V.Off))
			}
		}
		efail("bad operand for unary %s", x.Op)
	case *EBinary:
		return e.binary(x)
	case *ECond:
		c := e.eval(x.C).boolTerm()
		a, b := e.eval(x.A), e.eval(x.B)
		a, b = unify(a, b)
		switch a.K {
		case CLit, CLitC:
			return &CV{K: CLitC, T: c, A: a, B: b}
		case CBool, CInt, CBV, CFP:
			r := *a
			r.V = nil
			r.T = Ite(c, a.T, b.T)
			return &r
		case CVal:
			return &CV{K: CVal, V: mergeVals(c, a.V, b.V)}
		case CSeq:
			return &CV{K: CSeq, Row: Ite(c, a.Row, b.Row), Off: Ite(c, a.Off, b.Off)}
		}
		efail("bad conditional operands")
	case *ELet:
		v := e.eval(x.Val)
		ch := e.child()
		ch.vars[x.Name] = v
		return ch.eval(x.Body)
	case *EQuant:
		ch := e.child()
		var bs []*Term
		for i, n := range x.Vars {
			kind, w, sg, ok := parseTypeName(x.Types[i])
			if !ok {
				efail("bad bound type %s", x.Types[i])
			}
			var b *Term
			switch kind {
			case "int":
				b = BoundVar(n, IntS)
				ch.vars[n] = cvInt(b)
			case "bool":
				b = BoundVar(n, BoolS)
				ch.vars[n] = cvBool(b)
			case "bv":
				b = BoundVar(n, BVS(w))
				ch.vars[n] = &CV{K: CBV, T: b, Signed: sg}
			default:
				efail("bad bound type %s", x.Types[i])
			}
			bs = append(bs, b)
		}
		body := ch.eval(x.Body).boolTerm()
		if x.Forall {
			return cvBool(Forall(bs, body))
		}
		return cvBool(Exists(bs, body))
	case *ESel:
		if id, ok := x.X.(*EIdent); ok && e.lookup(id.Name) == nil {
			// pkg.Name: a package-level variable or constant of another package
			if v := e.lookup(id.Name + "." + x.Name); v != nil {
				return v
			}
		}
		return e.sel(e.eval(x.X), x.Name)
	case *EIndex:
		return e.index(e.eval(x.X), e.eval(x.I))
	case *ESlice:
		s := e.asSeq(e.eval(x.X))
		lo := IntLit(0)
		if x.Lo != nil {
			lo = e.eval(x.Lo).asInt()
		}
		r := &CV{K: CSeq, Row: s.Row, Off: Add(s.Off, lo)}
		if x.Hi != nil {
			r.Len = Sub(e.eval(x.Hi).asInt(), lo)
		} else if s.Len != nil {
			r.Len = Sub(s.Len, lo)
		}
		return r
	case *ECall:
		return e.call(x)
	}
	efail("cannot evaluate %s", exprString(x))
	return nil
}

func (e *Env) sel(a *CV, name string) *CV {
	if a.K != CVal {
		efail("selector .%s on non-struct", name)
	}
	v := a.V
	t := v.T
	switch name {
	case "ref":
		if v.K == VPtr || v.K == VSlice || v.K == VString || v.K == VIface {
			return cvInt(v.Ref)
		}
	case "off":
		if v.K == VPtr || v.K == VSlice || v.K == VString {
			return cvInt(v.Off)
		}
	}
	if p, ok := t.Underlying().(*types.Pointer); ok {
		st, ok := p.Elem().Underlying().(*types.Struct)
		if !ok {
			efail("selector .%s on pointer to non-struct %v", name, t)
		}
		for i := 0; i < st.NumFields(); i++ {
			if st.Field(i).Name() == name {
				return cvOfVal(e.loaded(e.st.loadKinds(st.Field(i).Type(), fieldKinds(p.Elem(), st, i), v.Ref, Add(v.Off, IntLit(fieldOffset(st, i))))))
			}
		}
		efail("no field %s in %v", name, t)
	}
	if st, ok := t.Underlying().(*types.Struct); ok && v.K == VTuple {
		for i := 0; i < st.NumFields(); i++ {
			if st.Field(i).Name() == name {
				return cvOfVal(v.El[i])
			}
		}
	}
	// pseudo fields
	switch name {
	case "ref":
		if v.Ref != nil {
			return cvInt(v.Ref)
		}
		if v.K == VMap {
			return cvInt(v.S)
		}
	case "off":
		if v.Off != nil {
			return cvInt(v.Off)
		}
	case "tag":
		if v.K == VIface {
			return cvInt(v.S)
		}
	}
	efail("no field %s in %v", name, t)
	return nil
}

func (e *Env) index(a, i *CV) *CV {
	idx := i.asInt()
	if a.K == CSeq {
		return e.scalarCV(Select(a.Row, Add(a.Off, idx)), false)
	}
	if a.K != CVal {
		efail("index of non-sequence")
	}
	v := a.V
	switch v.K {
	case VSlice:
		el := v.T.Underlying().(*types.Slice).Elem()
		sz := sizeOf(el)
		r := e.st.load(el, v.Ref, Add(v.Off, Mul(IntLit(sz), idx)))
		if !idx.hasB {
			e.loaded(r)
		}
		return cvOfVal(r)
	case VString:
		return &CV{K: CBV, T: Select(strRowOf(e.st, v), Add(v.Off, idx))}
	case VPtr:
		if p, ok := v.T.Underlying().(*types.Pointer); ok {
			if ar, ok := p.Elem().Underlying().(*types.Array); ok {
				sz := sizeOf(ar.Elem())
				return cvOfVal(e.st.load(ar.Elem(), v.Ref, Add(v.Off, Mul(IntLit(sz), idx))))
			}
		}
	case VTuple:
		if _, ok := v.T.Underlying().(*types.Array); ok {
			if k, ok := idx.Int64(); ok {
				if k < 0 || int(k) >= len(v.El) {
					efail("constant index out of range")
				}
				return cvOfVal(v.El[k])
			}
			r := v.El[len(v.El)-1]
			for j := len(v.El) - 2; j >= 0; j-- {
				r = mergeVals(Eq(idx, IntLit(int64(j))), v.El[j], r)
			}
			return cvOfVal(r)
		}
	}
	efail("cannot index %v", v.T)
	return nil
}

func (e *Env) scalarCV(t *Term, signed bool) *CV {
	switch {
	case t.S == BoolS:
		return cvBool(t)
	case t.S == IntS:
		return cvInt(t)
	case t.S.K == SBV:
		return &CV{K: CBV, T: t, Signed: signed}
	case t.S == FPS:
		return &CV{K: CFP, T: t}
	}
	efail("non-scalar term")
	return nil
}

// unify brings two operands to a common numeric representation.
func unify(a, b *CV) (*CV, *CV) {
	if (a.K == CLit || a.K == CLitC) && (b.K == CLit || b.K == CLitC) {
		return a, b
	}
	if a.K == CLitC {
		switch b.K {
		case CBV:
			return &CV{K: CBV, T: a.asBV(b.T.S.W), Signed: b.Signed}, b
		case CInt:
			return cvInt(a.asInt()), b
		}
	}
	if b.K == CLitC {
		y, x := unify(b, a)
		return x, y
	}
	if a.K == CLit {
		switch b.K {
		case CBV:
			if a.Lit.Sign() >= 0 && a.Lit.BitLen() > b.T.S.W {
				return cvInt(IntBig(a.Lit)), cvInt(b.asInt())
			}
			return &CV{K: CBV, T: BVBig(a.Lit, b.T.S.W), Signed: b.Signed}, b
		case CInt:
			return cvInt(IntBig(a.Lit)), b
		}
	}
	if b.K == CLit {
		y, x := unify(b, a)
		return x, y
	}
	if a.K == CBV && b.K == CBV && a.T.S.W != b.T.S.W {
		return cvInt(a.asInt()), cvInt(b.asInt())
	}
	if (a.K == CBV && b.K == CInt) || (a.K == CInt && b.K == CBV) {
		return cvInt(a.asInt()), cvInt(b.asInt())
	}
	return a, b
}

func (e *Env) binary(x *EBinary) *CV {
	switch x.Op {
	case "&&":
		return cvBool(And(e.eval(x.X).boolTerm(), e.eval(x.Y).boolTerm()))
	case "||":
		return cvBool(Or(e.eval(x.X).boolTerm(), e.eval(x.Y).boolTerm()))
	case "==>":
		return cvBool(Implies(e.eval(x.X).boolTerm(), e.eval(x.Y).boolTerm()))
	case "<==>":
		return cvBool(Eq(e.eval(x.X).boolTerm(), e.eval(x.Y).boolTerm()))
	}
	a, b := e.eval(x.X), e.eval(x.Y)
	if x.Op == "==" || x.Op == "!=" {
		r := e.equal(a, b)
		if x.Op == "!=" {
			r = Not(r)
		}
		return cvBool(r)
	}
	// shifts keep the left operand's type
	if x.Op == "<<" || x.Op == ">>" {
		switch a.K {
		case CLit:
			if b.K == CLit {
				if x.Op == "<<" {
					return &CV{K: CLit, Lit: new(big.Int).Lsh(a.Lit, uint(b.Lit.Int64()))}
				}
				return &CV{K: CLit, Lit: new(big.Int).Rsh(a.Lit, uint(b.Lit.Int64()))}
			}
		case CBV:
			w := a.T.S.W
			var cnt *Term
			switch b.K {
			case CLit:
				cnt = BVBig(b.Lit, w)
				if b.Lit.Cmp(big.NewInt(int64(w))) >= 0 {
					cnt = BVLit(uint64(w), w)
				}
			case CBV:
				cnt = shiftCount(b.T, w)
			case CInt:
				cnt = Ite(Ge(b.T, IntLit(int64(w))), BVLit(uint64(w), w), Int2BV(w, b.T))
			}
			op := "bvshl"
			if x.Op == ">>" {
				op = "bvlshr"
				if a.Signed {
					op = "bvashr"
				}
			}
			return &CV{K: CBV, T: BVOp(op, a.T, cnt), Signed: a.Signed}
		case CInt:
			if b.K == CLit {
				p := IntBig(new(big.Int).Lsh(big.NewInt(1), uint(b.Lit.Int64())))
				if x.Op == "<<" {
					return cvInt(Mul(a.T, p))
				}
				return cvInt(IDiv(a.T, p))
			}
		}
		efail("bad shift operands in %s", exprString(x))
	}
	a, b = unify(a, b)
	if a.K == CLitC || b.K == CLitC {
		a, b = cvInt(a.asInt()), cvInt(b.asInt())
	}
	if a.K == CLit {
		r := new(big.Int)
		switch x.Op {
		case "+":
			r.Add(a.Lit, b.Lit)
		case "-":
			r.Sub(a.Lit, b.Lit)
		case "*":
			r.Mul(a.Lit, b.Lit)
		case "/":
			r.Quo(a.Lit, b.Lit)
		case "%":
			r.Rem(a.Lit, b.Lit)
		case "&":
			r.And(a.Lit, b.Lit)
		case "|":
			r.Or(a.Lit, b.Lit)
		case "^":
			r.Xor(a.Lit, b.Lit)
		case "<":
			return cvBool(BoolT(a.Lit.Cmp(b.Lit) < 0))
		case "<=":
			return cvBool(BoolT(a.Lit.Cmp(b.Lit) <= 0))
		case ">":
			return cvBool(BoolT(a.Lit.Cmp(b.Lit) > 0))
		case ">=":
			return cvBool(BoolT(a.Lit.Cmp(b.Lit) >= 0))
		default:
			efail("bad literal op %s", x.Op)
		}
		return &CV{K: CLit, Lit: r}
	}
	if a.K == CInt && b.K == CInt {
		switch x.Op {
		case "+":
			return cvInt(Add(a.T, b.T))
		case "-":
			return cvInt(Sub(a.T, b.T))
		case "*":
			return cvInt(Mul(a.T, b.T))
		case "/":
			return cvInt(IDiv(a.T, b.T)) // spec-level: euclidean (operands are non-negative in all uses)
		case "%":
			return cvInt(IMod(a.T, b.T))
		case "<":
			return cvBool(Lt(a.T, b.T))
		case "<=":
			return cvBool(Le(a.T, b.T))
		case ">":
			return cvBool(Gt(a.T, b.T))
		case ">=":
			return cvBool(Ge(a.T, b.T))
		}
		efail("operator %s not defined on int (use a bit-vector type)", x.Op)
	}
	if a.K == CBV && b.K == CBV {
		sg := a.Signed && b.Signed
		var op string
		switch x.Op {
		case "+":
			op = "bvadd"
		case "-":
			op = "bvsub"
		case "*":
			op = "bvmul"
		case "/":
			op = "bvudiv"
			if sg {
				op = "bvsdiv"
			}
		case "%":
			op = "bvurem"
			if sg {
				op = "bvsrem"
			}
		case "&":
			op = "bvand"
		case "|":
			op = "bvor"
		case "^":
			op = "bvxor"
		case "&^":
			return &CV{K: CBV, T: BVOp("bvand", a.T, BVNot(b.T)), Signed: sg}
		case "<", "<=", ">", ">=":
			m := map[string]string{"<": "lt", "<=": "le", ">": "gt", ">=": "ge"}[x.Op]
			p := "bvu"
			if sg {
				p = "bvs"
			}
			return cvBool(BVCmp(p+m, a.T, b.T))
		}
		if op == "" {
			efail("bad bv op %s", x.Op)
		}
		return &CV{K: CBV, T: BVOp(op, a.T, b.T), Signed: sg}
	}
	if a.K == CFP && (b.K == CLit || b.K == CInt) {
		b = &CV{K: CFP, T: fpOfIntCV(b)}
	}
	if b.K == CFP && (a.K == CLit || a.K == CInt) {
		a = &CV{K: CFP, T: fpOfIntCV(a)}
	}
	if a.K == CFP && b.K == CFP {
		switch x.Op {
		case "+":
			return &CV{K: CFP, T: FPOp("fp.add RNE", FPS, a.T, b.T)}
		case "-":
			return &CV{K: CFP, T: FPOp("fp.sub RNE", FPS, a.T, b.T)}
		case "*":
			return &CV{K: CFP, T: FPOp("fp.mul RNE", FPS, a.T, b.T)}
		case "/":
			return &CV{K: CFP, T: FPOp("fp.div RNE", FPS, a.T, b.T)}
		}
		switch x.Op {
		case "<":
			return cvBool(FPOp("fp.lt", BoolS, a.T, b.T))
		case "<=":
			return cvBool(FPOp("fp.leq", BoolS, a.T, b.T))
		case ">":
			return cvBool(FPOp("fp.gt", BoolS, a.T, b.T))
		case ">=":
			return cvBool(FPOp("fp.geq", BoolS, a.T, b.T))
		}
	}
	efail("type mismatch in %s", exprString(x))
	return nil
}

func shiftCount(y *Term, w int) *Term {
	w2 := y.S.W
	if w2 == w {
		return y
	}
	if w2 < w {
		return ZeroExt(w-w2, y)
	}
	// y = x & m with m < w cannot reach the width: plain truncation
	if y.Op == "bvand" {
		for _, a := range y.Args {
			if a.Op == "bv" && a.V.Cmp(big.NewInt(int64(w))) < 0 {
				return Extract(w-1, 0, y)
			}
		}
	}
	if y.Op == "bvurem" && y.Args[1].Op == "bv" && y.Args[1].V.Sign() > 0 && y.Args[1].V.Cmp(big.NewInt(int64(w))) <= 0 {
		return Extract(w-1, 0, y)
	}
	return Ite(BVCmp("bvuge", y, BVLit(uint64(w), w2)), BVLit(uint64(w), w), Extract(w-1, 0, y))
}

func (e *Env) equal(a, b *CV) *Term {
	if a.K == CNil || b.K == CNil {
		if a.K == CNil {
			a, b = b, a
		}
		if b.K != CNil {
			efail("nil compare")
		}
		if a.K == CNil {
			return True
		}
		if a.K != CVal {
			efail("nil compared with non-reference")
		}
		switch a.V.K {
		case VPtr, VSlice:
			return Eq(a.V.Ref, IntLit(0))
		case VIface, VMap, VFunc:
			return Eq(a.V.S, IntLit(0))
		}
		efail("nil compared with %v", a.V.T)
	}
	a, b = unify(a, b)
	if a.K == CLitC || b.K == CLitC {
		a, b = cvInt(a.asInt()), cvInt(b.asInt())
	}
	switch a.K {
	case CLit:
		return BoolT(a.Lit.Cmp(b.Lit) == 0)
	case CInt, CBool, CBV:
		if b.K != a.K {
			efail("== between different kinds")
		}
		return Eq(a.T, b.T)
	case CFP:
		// contract-level == on floats is identity of the binary64 datum (NaN == NaN, +0 != -0)
		return Eq(a.T, b.T)
	case CVal:
		if b.K != CVal {
			efail("== between value and scalar")
		}
		return e.valEqual(a.V, b.V)
	}
	efail("== not supported here")
	return nil
}

func (e *Env) valEqual(a, b *Val) *Term {
	if a.K != b.K {
		efail("== between different shapes %v %v", a.T, b.T)
	}
	switch a.K {
	case VScalar, VMap, VFunc:
		return Eq(a.S, b.S)
	case VPtr:
		return And(Eq(a.Ref, b.Ref), Eq(a.Off, b.Off))
	case VIface:
		return And(Eq(a.S, b.S), Eq(a.Ref, b.Ref))
	case VString:
		return e.seqEqual(strRowOf(e.st, a), a.Off, a.Len, strRowOf(e.st, b), b.Off, b.Len)
	case VSlice:
		// contract-level meaning: same contents
		el := a.T.Underlying().(*types.Slice).Elem()
		k := scalarKind(el)
		if k == "" {
			efail("== on slices of non-scalars")
		}
		return e.seqEqual(e.st.row(k, a.Ref), a.Off, a.Len, e.st.row(k, b.Ref), b.Off, b.Len)
	case VTuple:
		var cs []*Term
		for i := range a.El {
			cs = append(cs, e.valEqual(a.El[i], b.El[i]))
		}
		return And(cs...)
	}
	efail("valEqual")
	return nil
}

func (e *Env) seqEqual(ra, oa, la, rb, ob, lb *Term) *Term {
	if n, ok := la.Int64(); ok && n <= 128 {
		cs := []*Term{Eq(la, lb)}
		for i := int64(0); i < n; i++ {
			cs = append(cs, Eq(Select(ra, Add(oa, IntLit(i))), Select(rb, Add(ob, IntLit(i)))))
		}
		return And(cs...)
	}
	j := BoundVar("k", IntS)
	return And(Eq(la, lb), Forall([]*Term{j}, Implies(And(Le(IntLit(0), j), Lt(j, la)), Eq(Select(ra, Add(oa, j)), Select(rb, Add(ob, j))))))
}

func (e *Env) call(x *ECall) *CV {
	arg := func(i int) *CV { return e.eval(x.Args[i]) }
	switch x.Fun {
	case "old":
		if e.old == nil {
			efail("old() not available here")
		}
		ch := e.child()
		ch.st = e.old
		return ch.eval(x.Args[0])
	case "len":
		a := arg(0)
		if a.K == CSeq {
			if a.Len == nil {
				efail("len of unbounded sequence")
			}
			return cvInt(a.Len)
		}
		if a.K == CVal {
			switch a.V.K {
			case VSlice, VString:
				return cvInt(a.V.Len)
			case VTuple:
				return cvInt(IntLit(int64(len(a.V.El))))
			case VPtr:
				if p, ok := a.V.T.Underlying().(*types.Pointer); ok {
					if ar, ok := p.Elem().Underlying().(*types.Array); ok {
						return cvInt(IntLit(ar.Len()))
					}
				}
			}
		}
		efail("len of non-sequence")
	case "cap":
		a := arg(0)
		if a.K == CVal && a.V.K == VSlice {
			return cvInt(a.V.Cap)
		}
		efail("cap of non-slice")
	case "int":
		return cvInt(arg(0).asInt())
	case "fresh":
		a := arg(0)
		if a.K != CVal || e.oldNext == nil {
			efail("fresh() needs a reference value in a postcondition")
		}
		r := a.V.Ref
		if a.V.K == VMap {
			r = a.V.S
		}
		return cvBool(Ge(r, e.oldNext))
	case "allocated":
		// allocated(x): the object x refers to exists in the current state (always true of
		// any reference a program can hold; stated explicitly where a quantified load hides it)
		a := arg(0)
		if a.K != CVal || e.st == nil || e.st.Next == nil {
			efail("allocated() needs a reference value")
		}
		r := a.V.Ref
		if a.V.K == VMap {
			r = a.V.S
		}
		return cvBool(Lt(r, e.st.Next))
	case "unique":
		// unique(result): allocated during the call and referenced by nothing else
		a := arg(0)
		if a.K != CVal || e.oldNext == nil || a.V.K != VSlice {
			efail("unique() needs a slice result in a postcondition")
		}
		a.V.Unique = true
		return cvBool(Ge(a.V.Ref, e.oldNext))
	case "isnan":
		return cvBool(FPOp("fp.isNaN", BoolS, arg(0).T))
	case "isinf":
		return cvBool(FPOp("fp.isInfinite", BoolS, arg(0).T))
	case "isneg":
		return cvBool(FPOp("fp.isNegative", BoolS, arg(0).T))
	case "fp_abs":
		return &CV{K: CFP, T: FPOp("fp.abs", FPS, arg(0).T)}
	case "fp_neg":
		return &CV{K: CFP, T: FPOp("fp.neg", FPS, arg(0).T)}
	case "fp_rna":
		// round to integral, ties away from zero
		return &CV{K: CFP, T: FPOp("fp.roundToIntegral RNA", FPS, arg(0).T)}
	case "fp_toint":
		// conversion of an integral float to a signed 64-bit integer
		return &CV{K: CBV, T: FPOp("(_ fp.to_sbv 64) RTZ", BVS(64), arg(0).T), Signed: true}
	case "fp_of":
		// signed integer -> nearest float (as Go's float64(x))
		a := arg(0)
		if a.K == CFP {
			return a
		}
		if a.K == CBV {
			op := "(_ to_fp_unsigned 11 53) RNE"
			if a.Signed {
				op = "(_ to_fp 11 53) RNE"
			}
			return &CV{K: CFP, T: FPOp(op, FPS, a.T)}
		}
		return &CV{K: CFP, T: fpOfIntCV(a)}
	case "freshornil":
		a := arg(0)
		if a.K != CVal || e.oldNext == nil {
			efail("freshornil() needs a reference value and a pre-state")
		}
		r := a.V.Ref
		return cvBool(Or(Ge(r, e.oldNext), Eq(r, IntLit(0))))
	case "sameobj":
		a, b := arg(0), arg(1)
		return cvBool(Eq(a.V.Ref, b.V.Ref))
	case "disjoint":
		a, b := arg(0), arg(1)
		return cvBool(Or(Not(Eq(a.V.Ref, b.V.Ref)), Eq(a.V.Ref, IntLit(0))))
	case "held":
		a := arg(0)
		// a is a sync.Mutex value loaded from memory: scalar Bool
		if a.K == CBool {
			return a
		}
		efail("held() of non-mutex")
	case "ite":
		return e.eval(&ECond{C: x.Args[0], A: x.Args[1], B: x.Args[2]})
	case "typeis":
		// typeis(x, "pkg.*T")
		a := arg(0)
		s, ok := x.Args[1].(*EStr)
		if !ok || a.K != CVal || a.V.K != VIface {
			efail("typeis(iface, \"type\")")
		}
		return cvBool(Eq(a.V.S, IntLit(typeTagByName(s.S))))
	case "implements":
		// implements(x, "pkg.Iface"): the dynamic type of interface value x implements the named interface
		a := arg(0)
		s, ok := x.Args[1].(*EStr)
		if !ok || a.K != CVal || a.V.K != VIface {
			efail("implements(iface, \"pkg.Interface\")")
		}
		t := typeByName(s.S)
		if t == nil {
			efail("unknown type %s", s.S)
		}
		it := implTerm(t, a.V.S)
		if it == nil {
			efail("%s is not a named interface type with methods", s.S)
		}
		return cvBool(it)
	case "unbox":
		// unbox(x, "pkg.*T"): payload of interface value as the named type
		a := arg(0)
		s, ok := x.Args[1].(*EStr)
		if !ok || a.K != CVal || a.V.K != VIface {
			efail("unbox(iface, \"type\")")
		}
		t := typeByName(s.S)
		if t == nil {
			efail("unknown type %s", s.S)
		}
		uv := e.st.load(t, a.V.Ref, IntLit(0))
		if uv.K == VPtr {
			// the payload of an interface value of another dynamic type is not a pointer of this type:
			// unbox then yields nil (so frame clauses that name it denote nothing)
			is := Eq(a.V.S, IntLit(theV.typeTag(t)))
			n := *uv
			n.Ref = Ite(is, uv.Ref, IntLit(0))
			n.Off = Ite(is, uv.Off, IntLit(0))
			uv = &n
		}
		return cvOfVal(uv)
	}
	if kind, w, sg, ok := parseTypeName(x.Fun); ok && len(x.Args) == 1 && kind == "bv" {
		a := arg(0)
		return &CV{K: CBV, T: a.asBV(w), Signed: sg}
	}
	if e.lib != nil {
		if f := e.lib.Funs[x.Fun]; f != nil {
			if len(f.Params) != len(x.Args) {
				efail("%s: expected %d arguments", x.Fun, len(f.Params))
			}
			var ts []*Term
			for i, p := range f.Params {
				ts = append(ts, e.coerceTo(arg(i), p.Type)...)
			}
			if f.Macro && f.BodyTerm != nil {
				m := map[*Term]*Term{}
				for i, pv := range f.ParamVars {
					m[pv] = ts[i]
				}
				return e.scalarCV(Subst(f.BodyTerm, m), f.RetSigned)
			}
			r := App(f.SMTName, f.RetSort, ts...)
			return e.scalarCV(r, f.RetSigned)
		}
	}
	efail("unknown function %s", x.Fun)
	return nil
}

// safeEval wraps eval, turning evaluation failures into errors.
func (e *Env) safeEval(x Expr) (cv *CV, err error) {
	defer func() {
		if r := recover(); r != nil {
			if ee, ok := r.(evalErr); ok {
				err = fmt.Errorf("%s", string(ee))
				return
			}
			panic(r)
		}
	}()
	return e.eval(x), nil
}

func (e *Env) evalBool(x Expr) (*Term, error) {
	cv, err := e.safeEval(x)
	if err != nil {
		return nil, err
	}
	if cv.K != CBool {
		return nil, fmt.Errorf("expression %s is not boolean", exprString(x))
	}
	return cv.T, nil
}

// strRowOf: the byte row of a string value; string constants have fixed contents.
func strRowOf(st *State, s *Val) *Term {
	if id, ok := s.Ref.Int64(); ok && id < 0 && theV != nil {
		for str, sid := range theV.strConsts {
			if sid == id {
				return strConstRow(str)
			}
		}
	}
	return st.row("str8", s.Ref)
}

// fpOfIntCV: an integer (literal or Int term) as a binary64 value, rounded to nearest even.
func fpOfIntCV(c *CV) *Term {
	if c.K == CLit {
		if c.Lit.Sign() < 0 {
			return FPOp("fp.neg", FPS, FPOp(fmt.Sprintf("(_ to_fp 11 53) RNE %s.0", new(big.Int).Neg(c.Lit).String()), FPS))
		}
		return FPOp(fmt.Sprintf("(_ to_fp 11 53) RNE %s.0", c.Lit.String()), FPS)
	}
	return FPOp("(_ to_fp 11 53) RNE", FPS, FPOp("to_real", &Sort{K: SInt, str: "Real"}, c.asInt()))
}
