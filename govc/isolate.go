// isolate.go: history independence. Every function (and lemma) is translated
// from the same pool state: the term table, fresh-name counter, declaration
// table and the verifier's lazily filled tables are restored after each unit,
// and the unit's queries are rendered to text before the restore. A function's
// queries are therefore byte-identical whichever other functions are checked
// in the same process, which removes one source of solver instability.
package main

import (
	"go/types"

	"golang.org/x/tools/go/ssa"
)

type poolSnap struct {
	n, orderLen, fresh, axLen int
	strConsts                 map[string]int64
	nextNeg                   int64
	typeTags                  map[string]int64
	tagTypes                  map[int64]types.Type
	sliceGlobalArr            map[*ssa.Global]int64
	kindsSeen                 map[string]bool
	globals                   map[*ssa.Global]int64
}

func (v *Verifier) snapshot() *poolSnap {
	s := &poolSnap{n: P.n, orderLen: len(P.order), fresh: freshN, axLen: len(v.axioms), nextNeg: v.nextNeg,
		strConsts: map[string]int64{}, typeTags: map[string]int64{}, tagTypes: map[int64]types.Type{},
		sliceGlobalArr: map[*ssa.Global]int64{}, kindsSeen: map[string]bool{}, globals: map[*ssa.Global]int64{}}
	for k, x := range v.globals {
		s.globals[k] = x
	}
	for k, x := range v.strConsts {
		s.strConsts[k] = x
	}
	for k, x := range v.typeTags {
		s.typeTags[k] = x
	}
	for k, x := range v.tagTypes {
		s.tagTypes[k] = x
	}
	for k, x := range v.sliceGlobalArr {
		s.sliceGlobalArr[k] = x
	}
	for k, x := range kindsSeen {
		s.kindsSeen[k] = x
	}
	return s
}

func (v *Verifier) restore(s *poolSnap) {
	for k, t := range P.tab {
		if t.id > s.n {
			delete(P.tab, k)
		}
	}
	P.n = s.n
	for _, name := range P.order[s.orderLen:] {
		delete(P.decls, name)
	}
	P.order = P.order[:s.orderLen]
	freshN = s.fresh
	v.axioms = v.axioms[:s.axLen]
	v.nextNeg = s.nextNeg
	v.strConsts = map[string]int64{}
	for k, x := range s.strConsts {
		v.strConsts[k] = x
	}
	v.typeTags = map[string]int64{}
	for k, x := range s.typeTags {
		v.typeTags[k] = x
	}
	v.tagTypes = map[int64]types.Type{}
	for k, x := range s.tagTypes {
		v.tagTypes[k] = x
	}
	v.globals = map[*ssa.Global]int64{}
	for k, x := range s.globals {
		v.globals[k] = x
	}
	v.sliceGlobalArr = map[*ssa.Global]int64{}
	for k, x := range s.sliceGlobalArr {
		v.sliceGlobalArr[k] = x
	}
	for k := range kindsSeen {
		if !s.kindsSeen[k] {
			delete(kindsSeen, k)
		}
	}
	absDecls = map[string]string{}
}

// prebuild renders the queries of the obligations while their terms are still in the pool.
func (v *Verifier) prebuild(obls []*Obligation) {
	for _, o := range obls {
		if o.Trivial || o.built {
			continue
		}
		o.q, o.gv = v.buildQuery(o, true)
		o.qAbs = lastAbs
		o.built = true
	}
}

// verifyIsolated: translate one function and render its queries from a clean pool state.
func (v *Verifier) verifyIsolated(fn *ssa.Function) *Unit {
	s := v.snapshot()
	u := v.verifyFunction(fn)
	v.prebuild(u.obls)
	v.prebuild(u.covers)
	v.restore(s)
	return u
}

func (v *Verifier) lemmaObligationsIsolated(l *Lemma) ([]*Obligation, error) {
	s := v.snapshot()
	os, err := v.lemmaObligations(l)
	if err == nil {
		v.prebuild(os)
	}
	v.restore(s)
	return os, err
}
