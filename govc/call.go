// call.go: calls — builtins, contracts, inlining, externals, dynamic dispatch.
package main

import (
	"sort"
	"regexp"
	"hash/fnv"
	"fmt"
	"go/ast"
	"go/constant"
	"go/types"
	"math/big"
	"strings"

	"golang.org/x/tools/go/packages"
	"golang.org/x/tools/go/ssa"
)

// callsKind: ghost heap kind holding, at row 0, one counter per callee name —
// the number of calls the function under verification has executed so far
// ($calls_<name> in contracts is the difference to the entry state).
const callsKind = "int@calls"

// mapUpdateName: pseudo-callee under which map assignments are counted ($calls_mapupdate)
const mapUpdateName = "mapupdate"

func callsID(name string) int64 {
	h := fnv.New32a()
	h.Write([]byte(name))
	return int64(h.Sum32())
}

func calleeDisplayName(c *ssa.CallCommon) string {
	if b, ok := c.Value.(*ssa.Builtin); ok {
		return b.Name()
	}
	if c.IsInvoke() {
		return c.Method.Name()
	}
	if sc := c.StaticCallee(); sc != nil {
		return sc.Name()
	}
	return ""
}

func (fr *Frame) countCall(x *ssa.Call) {
	if fr.parent != nil || fr.reach == False {
		return
	}
	if n := calleeDisplayName(&x.Call); n != "" {
		id := IntLit(callsID(n))
		fr.st.storeCell(callsKind, IntLit(0), id, Add(fr.st.loadCell(callsKind, IntLit(0), id), IntLit(1)))
	}
}

func (fr *Frame) call(x *ssa.Call) {
	fr.countCall(x)
	c := &x.Call
	if b, ok := c.Value.(*ssa.Builtin); ok {
		fr.builtin(x, b)
		fr.assertsAfterNamed(x, b.Name(), func(cl *ssa.Call) bool {
			bb, ok := cl.Call.Value.(*ssa.Builtin)
			return ok && bb.Name() == b.Name()
		})
		return
	}
	var args []*Val
	for _, a := range c.Args {
		args = append(args, canonVal(fr.get(a)))
	}
	if c.IsInvoke() {
		fr.invoke(x, args)
		mn := c.Method.Name()
		fr.assertsAfterNamed(x, mn, func(cl *ssa.Call) bool { return cl.Call.IsInvoke() && cl.Call.Method.Name() == mn })
		return
	}
	callee := c.StaticCallee()
	if callee == nil {
		if ci := fr.closureTarget(c.Value); ci != nil {
			callee = ci.fn.(*ssa.Function)
			fr.callFunction(x, callee, args, ci.bindings)
			return
		}
		unsup("dynamic call through %s in %s", c.Value.Name(), fr.fn.Name())
	}
	var bindings []*Val
	if mc, ok := c.Value.(*ssa.MakeClosure); ok {
		for _, b := range mc.Bindings {
			bindings = append(bindings, fr.get(b))
		}
	}
	fr.callFunction(x, callee, args, bindings)
	fr.assertsAfter(x, callee)
	// clauses this lemma function is said to justify: obligations, now that the proof steps anchored at the call have run
	for _, pj := range fr.pendingBy {
		fr.u.justified[pj.fn+"|"+pj.c.Src] = true
		n := len(fr.u.justified)
		fr.u.addObl(fmt.Sprintf("%s#justifies.%d", fr.oblPrefix(), n), "assert", fr.reach, pj.t, pj.c.Where, "ensures-by clause of "+pj.fn+": "+pj.c.Src)
	}
	fr.pendingBy = nil
}

type pendingJustify struct {
	t  *Term
	c  Clause
	fn string
}

// assertsAfter: proof-decomposition assertions anchored after this call.
func (fr *Frame) assertsAfter(x *ssa.Call, callee *ssa.Function) {
	fr.assertsAfterNamed(x, callee.Name(), func(cl *ssa.Call) bool { return cl.Call.StaticCallee() == callee })
}

func (fr *Frame) assertsAfterNamed(x *ssa.Call, calleeName string, same func(*ssa.Call) bool) {
	if fr.reach == False {
		return
	}
	// the outermost frame: anchors of a lemma function may address calls inside the bodies it inlines ("g/f#k")
	root := fr
	var chain []string
	for root.parent != nil {
		chain = append([]string{root.fn.Name()}, chain...)
		root = root.parent
	}
	own := fr.contract != nil && len(fr.contract.Asserts) > 0
	outer := root != fr && root.contract != nil && len(root.contract.Asserts) > 0
	if !own && !outer {
		return
	}
	// static ordinal of this call among calls of the same callee
	ord := 0
	found := false
	for _, b := range fr.fn.Blocks {
		for _, in := range b.Instrs {
			if cl, ok := in.(*ssa.Call); ok && same(cl) {
				ord++
				if cl == x {
					found = true
					break
				}
			}
		}
		if found {
			break
		}
	}
	if own {
		for k, a := range fr.contract.Asserts {
			if a.Callee != calleeName || a.Ord != ord || len(a.Path) > 0 {
				continue
			}
			fr.anchor(fr, k, a, x)
		}
	}
	if outer {
		for k, a := range root.contract.Asserts {
			if a.Callee != calleeName || a.Ord != ord || len(a.Path) != len(chain) {
				continue
			}
			ok := true
			for i := range chain {
				ok = ok && a.Path[i] == chain[i]
			}
			if ok {
				fr.anchor(root, k, a, x)
			}
		}
	}
}

// anchor evaluates clause a of owner's contract after call x, which frame fr has just executed
// (owner == fr, or owner is the outermost frame and fr one of the bodies it inlines).
func (fr *Frame) anchor(owner *Frame, k int, a AssertAt, x *ssa.Call) {
	if owner.top {
		fr.u.anchored[k] = true
	}
	env := owner.contractEnv(owner.params, nil, fr.st, owner.entry)
	// the call's arguments and result are visible as $arg0.. and $ret
	for ai, av := range x.Call.Args {
		if val, ok := fr.env[av]; ok {
			env.vars[fmt.Sprintf("$arg%d", ai)] = cvOfVal(canonVal(val))
		} else if c, ok := av.(*ssa.Const); ok {
			env.vars[fmt.Sprintf("$arg%d", ai)] = cvOfVal(canonVal(fr.constVal(c)))
		}
	}
	if x.Call.IsInvoke() {
		if rv, ok := fr.env[x.Call.Value]; ok {
			env.vars["$recv"] = cvOfVal(canonVal(rv))
		}
	}
	if rv, ok := fr.env[x]; ok && rv.K != VTuple {
		env.vars["$ret"] = cvOfVal(canonVal(rv))
	} else if ok {
		if _, multi := x.Type().(*types.Tuple); !multi {
			env.vars["$ret"] = cvOfVal(canonVal(rv))
		}
		for ri, e := range rv.El {
			env.vars[fmt.Sprintf("$ret%d", ri)] = cvOfVal(canonVal(e))
		}
	}
	// ghost values named by earlier "bind" clauses
	for n, gv := range fr.u.ghost {
		if _, clash := env.vars[n]; !clash {
			env.vars[n] = gv
		}
	}
	base := env.resolve
	blk, cur := owner.blk, owner.env
	env.resolve = func(name string, ce *Env) *CV {
		if v := owner.resolveLocal(name, blk, cur, ce.st); v != nil {
			return v
		}
		return base(name, ce)
	}
	if a.Bind != "" {
		cv, err := env.safeEval(a.C.E)
		if err != nil {
			fr.u.errs = append(fr.u.errs, fmt.Sprintf("%s: bind %s: %v (contract.attach)", a.C.Where, a.C.Src, err))
			return
		}
		if fr.u.ghost == nil {
			fr.u.ghost = map[string]*CV{}
		}
		if cv.K == CVal && (cv.V.K == VSlice || cv.V.K == VString) {
			// a byte sequence is bound to its contents at this point (a snapshot): a fresh array constant
			// equal to the current row, so that later clauses do not drag the row's construction along
			func() {
				defer func() { recover() }()
				sq := env.asSeq(cv)
				row := Fresh("snap!"+strings.TrimPrefix(a.Bind, "$"), sq.Row.S)
				fr.assume(Eq(row, sq.Row))
				cv = &CV{K: CSeq, Row: row, Off: sq.Off, Len: sq.Len}
			}()
		}
		fr.u.ghost[a.Bind] = cv
		return
	}
	if a.Lemma {
		inst, err := fr.u.v.lemmaInstance(env, a.C.E.(*ECall))
		if err != nil {
			fr.u.errs = append(fr.u.errs, fmt.Sprintf("%s: lemma instance %s: %v (contract.attach)", a.C.Where, a.C.Src, err))
			return
		}
		fr.assume(inst)
		return
	}
	t, err := env.evalBool(a.C.E)
	if err != nil {
		fr.u.errs = append(fr.u.errs, fmt.Sprintf("%s: assert %s: %v (contract.attach)", a.C.Where, a.C.Src, err))
		return
	}
	name := fmt.Sprintf("%s#assert.%d", owner.oblPrefix(), k+1)
	fr.u.counters[name]++
	if n := fr.u.counters[name]; n > 1 {
		name = fmt.Sprintf("%s@%d", name, n)
	}
	fr.u.addObl(name, "assert", fr.reach, t, a.C.Where, a.C.Src)
	if len(a.Expand) > 0 {
		fr.u.obls[len(fr.u.obls)-1].Expand = expandSet(a.Expand)
	}
	if len(a.From) > 0 {
		// proved from the named earlier assertions alone
		o := fr.u.obls[len(fr.u.obls)-1]
		var hs []*Term
		for _, l := range a.From {
			if l == "nothing" {
				continue // a fact that needs no hypothesis (tables, arithmetic)
			}
			h, ok := fr.u.labelled[l]
			if !ok {
				fr.u.errs = append(fr.u.errs, fmt.Sprintf("%s: assert ... from %s: no earlier assertion with that name on this path (contract.attach)", a.C.Where, l))
				continue
			}
			hs = append(hs, h)
		}
		o.Hyps = hs
	}
	if a.Label != "" {
		if fr.u.labelled == nil {
			fr.u.labelled = map[string]*Term{}
		}
		fr.u.labelled[a.Label] = Implies(fr.reach, t)
	}
	fr.assume(t)
}

func (fr *Frame) setResults(x *ssa.Call, callee *types.Signature, res []*Val) {
	switch len(res) {
	case 0:
		fr.set(x, &Val{K: VTuple, T: x.Type()})
	case 1:
		fr.set(x, fr.localVal(x, res[0]))
	default:
		fr.set(x, &Val{K: VTuple, T: x.Type(), El: res})
	}
}

func (fr *Frame) inStack(fn *ssa.Function) bool {
	for f := fr; f != nil; f = f.parent {
		if f.fn == fn {
			return true
		}
	}
	return false
}

func (fr *Frame) callFunction(x *ssa.Call, callee *ssa.Function, args []*Val, bindings []*Val) {
	v := fr.u.v
	name := v.prog.names[callee]
	if name == "" {
		name = funcName(callee)
	}
	// ghost primitives of lemma functions
	switch callee.Name() {
	case "verifAssert":
		if strings.HasSuffix(name, ".verifAssert") {
			fr.oblig(x, "assert", args[0].S, "lemma assertion")
			fr.setResults(x, callee.Signature, nil)
			return
		}
	case "verifAssume":
		if strings.HasSuffix(name, ".verifAssume") {
			fr.assume(args[0].S)
			fr.setResults(x, callee.Signature, nil)
			return
		}
	}
	if rc := callee.Signature.Recv(); rc != nil && len(args) > 0 && args[0].K == VPtr && v.prog.inRepo(callee) {
		fr.oblig(x, "nil.recv", Not(Eq(args[0].Ref, IntLit(0))), "method "+name+" called on a nil receiver")
	}
	c := v.lib.Contracts[name]
	forceInline := fr.inlineSet != nil && fr.inlineSet[name]
	if c != nil && !c.Inline && !forceInline {
		fr.callContract(x, callee, c, args)
		return
	}
	if m := v.externalModel(name); m != nil && m.fn != nil {
		res := m.fn(fr, x, args)
		fr.setResults(x, callee.Signature, res)
		return
	}
	if len(callee.Blocks) > 0 && (v.prog.inRepo(callee) || (c != nil && c.Inline) || forceInline) {
		fi := v.info(callee)
		if fr.inStack(callee) {
			unsup("recursive call of %s without a contract", name)
		}
		if len(fi.Loops) > 0 && (c == nil || !c.Inline) && !forceInline {
			unsup("call of %s from %s: callee has loops but no contract (give it a contract or mark it inline with unroll bounds)", name, fr.u.name)
		}
		if fr.depth >= v.inlineDepthMax {
			unsup("inline depth exceeded at %s", name)
		}
		fr.inlineCall(x, callee, c, args, bindings)
		return
	}
	fr.genericExternal(x, callee, name, args)
}

// inlineCall executes the callee's body in place.
func (fr *Frame) inlineCall(x *ssa.Call, callee *ssa.Function, c *Contract, args []*Val, bindings []*Val) {
	for i, a := range args {
		if a.Unique && i < len(x.Call.Args) && !singleUse(x.Call.Args[i]) {
			n := *a
			n.Unique = false
			args[i] = &n
		}
	}
	ch := &Frame{u: fr.u, fn: callee, fi: fr.u.v.info(callee), contract: c, guard: fr.reach, params: args, fvs: bindings, top: false,
		depth: fr.depth + 1, parent: fr, quiet: fr.quiet, inlineSet: fr.inlineSet}
	ch.entry = fr.st.clone()
	if c != nil {
		// a function with its own contract is verified separately: check its precondition, keep its body quiet
		env := ch.contractEnv(args, nil, fr.st, nil)
		for _, rq := range c.Requires {
			t, err := env.evalBool(rq.E)
			if err != nil {
				fr.u.errs = append(fr.u.errs, fmt.Sprintf("%s: requires %s: %v", rq.Where, rq.Src, err))
				continue
			}
			fr.oblig(x, "requires@call", t, fmt.Sprintf("precondition of %s: %s", c.Fn, rq.Src))
		}
		if fr.u.v.underContract(c) {
			ch.quiet = true
		}
	}
	ch.run(fr.st)
	if len(ch.rets) == 0 {
		fr.reach = False
		fr.setResults(x, callee.Signature, nil)
		return
	}
	var conds []*Term
	var sts []*State
	for _, r := range ch.rets {
		conds = append(conds, r.cond)
		sts = append(sts, r.st)
	}
	fr.st = mergeStates(conds, sts)
	n := len(ch.rets[0].vals)
	res := make([]*Val, n)
	for i := 0; i < n; i++ {
		r := ch.rets[len(ch.rets)-1].vals[i]
		for k := len(ch.rets) - 2; k >= 0; k-- {
			r = mergeVals(ch.rets[k].cond, ch.rets[k].vals[i], r)
		}
		res[i] = r
	}
	fr.reach = Or(conds...)
	if c != nil && len(c.CallerEnsures) > 0 {
		// an inlined callee that has a contract: its ghost definitions and lemma-justified clauses hold for
		// this execution as for any other (and the lemma function that justifies one must prove it here)
		penv := ch.contractEnv(args, res, fr.st, ch.entry)
		for _, t := range fr.callerClauses(c, penv) {
			fr.assume(t)
		}
	}
	fr.setResults(x, callee.Signature, res)
}

// underContract: the function's own obligations are generated in this run's closure.
func (v *Verifier) underContract(c *Contract) bool { return !c.Trusted }

// callerClauses: the caller-only postconditions of c (ghost definitions, lemma-justified clauses) evaluated
// in the post-call environment penv. Inside the lemma function that justifies a clause the clause is not
// assumed: it becomes an obligation once the proof steps anchored at the call have run (see call()).
func (fr *Frame) callerClauses(c *Contract, penv *Env) []*Term {
	u := fr.u
	var ens []*Term
	for _, ce := range c.CallerEnsures {
		if ce.By != "" && ce.By == u.name {
			if t, err := penv.evalBool(ce.C.E); err != nil {
				u.errs = append(u.errs, fmt.Sprintf("%s: %s: %v (contract.attach)", ce.C.Where, ce.C.Src, err))
			} else {
				fr.pendingBy = append(fr.pendingBy, pendingJustify{t: t, c: ce.C, fn: c.Fn})
			}
			continue
		}
		if ce.By == "" && !contractResultFresh(c) {
			u.errs = append(u.errs, fmt.Sprintf("%s: ghostdef needs a contract that establishes fresh(result) (contract.attach)", ce.C.Where))
			continue
		}
		t, err := penv.evalBool(ce.C.E)
		if err != nil {
			u.errs = append(u.errs, fmt.Sprintf("%s: %s: %v (contract.attach)", ce.C.Where, ce.C.Src, err))
			continue
		}
		ens = append(ens, t)
		if ce.By != "" {
			u.v.lemmaDeps[ce.By] = true
			u.assumed["postcondition of "+c.Fn+" justified by lemma function "+ce.By+" (proved in this check): "+ce.C.Src] = true
		} else {
			u.assumed["ghost definition at the fresh result of "+c.Fn+": "+ce.C.Src] = true
		}
	}
	return ens
}

// callContract: assert requires, havoc modifies, assume ensures.
func (fr *Frame) callContract(x ssa.Instruction, callee *ssa.Function, c *Contract, args []*Val) {
	u := fr.u
	cf := &Frame{u: u, fn: callee, fi: nil, contract: c}
	pre := fr.st.clone()
	env := cf.contractEnv(args, nil, pre, nil)
	for _, rq := range c.Requires {
		t, err := env.evalBool(rq.E)
		if err != nil {
			u.errs = append(u.errs, fmt.Sprintf("%s: requires %s: %v", rq.Where, rq.Src, err))
			continue
		}
		fr.oblig(x, "requires@call", t, fmt.Sprintf("precondition of %s: %s", c.Fn, rq.Src))
	}
	// termination of recursion
	if callee == fr.u.fn && fr.top {
		if c.Decreases == nil {
			fr.oblig(x, "rec.dec", False, "recursive call without a decreases clause")
		} else {
			cv1, err1 := env.safeEval(c.Decreases.E)
			top := fr.contractEnv(fr.params, nil, fr.entry, nil)
			cv0, err0 := top.safeEval(c.Decreases.E)
			if err1 == nil && err0 == nil {
				fr.oblig(x, "rec.dec", And(Lt(cv1.asInt(), cv0.asInt()), Le(IntLit(0), cv0.asInt())), "recursion variant decreases: "+c.Decreases.Src)
			}
		}
	}
	if c.MayPanic {
		fr.oblig(x, "panic.callee", False, c.Fn+" may panic (external contract)")
	}
	// frame
	if !c.ModSet {
		u.note(fmt.Sprintf("contract of %s has no modifies clause: treated as modifying everything reachable from its arguments", c.Fn))
		fr.havocArgs(args)
	} else {
		for _, m := range c.Modifies {
			if err := fr.havocTarget(env, m, x); err != nil {
				u.errs = append(u.errs, fmt.Sprintf("%s: modifies %s: %v (contract.attach)", m.Where, m.Src, err))
			}
		}
	}
	oldNext := fr.st.Next
	{
		var f *Term
		fr.st.Next, f = newNext(oldNext)
		fr.u.facts = append(fr.u.facts, f)
	}
	// results
	var res []*Val
	rs := callee.Signature.Results()
	for i := 0; i < rs.Len(); i++ {
		rv := freshVal(rs.At(i).Type(), "r!"+callee.Name())
		if k := normStrings(rv); k > 0 {
			// room for the (virtual) objects the normalised strings live in
			fr.u.facts = append(fr.u.facts, Ge(fr.st.Next, Add(oldNext, IntLit(int64(k)))))
		}
		fr.u.facts = append(fr.u.facts, validFacts(rv, fr.st.Next, nil)...)
		registerBelow(rv, fr.st.Next)
		res = append(res, rv)
	}
	penv := cf.contractEnv(args, res, fr.st, pre)
	var ens []*Term
	for _, en := range c.Ensures {
		if traceClause(en.Src) {
			continue // trace clauses describe the callee's body; they are checked there and say nothing to callers
		}
		t, err := penv.evalBool(en.E)
		if err != nil {
			u.errs = append(u.errs, fmt.Sprintf("%s: ensures %s: %v (contract.attach)", en.Where, en.Src, err))
			continue
		}
		ens = append(ens, t)
	}
	ens = append(ens, fr.callerClauses(c, penv)...)
	// definitional postconditions (result component == term) are substituted
	// into the result values, so that lengths stay syntactically visible
	res, ens = substDefinitional(res, ens)
	for _, rv := range res {
		// type-validity again, now over the substituted components
		fr.u.facts = append(fr.u.facts, validFacts(rv, fr.st.Next, nil)...)
	}
	for _, t := range ens {
		if u.contract != nil && u.contract.Lemma && u.contract.Skolemize[c.Fn] {
			// lemma functions may ask (skolemize <callee>) that a postcondition (forall k. H) ==> C is assumed in the equisatisfiable
			// form H(sk) ==> C, so that the instantiation passes see ground terms for the hypothesis
			t = skolemizeHyp(t)
		}
		fr.assume(t)
	}
	if c.Trusted {
		u.v.assumptions["assumed contract of "+c.Fn+" ("+c.Where+")"] = true
		u.assumed["assumed contract of "+c.Fn] = true
	} else {
		u.deps[c.Fn] = true
	}
	if call, ok := x.(*ssa.Call); ok {
		fr.setResults(call, callee.Signature, res)
	}
}

func (fr *Frame) havocTarget(env *Env, m Clause, x ssa.Instruction) (err error) {
	defer func() {
		if r := recover(); r != nil {
			if ee, ok := r.(evalErr); ok {
				err = fmt.Errorf("%s", string(ee))
				return
			}
			panic(r)
		}
	}()
	if m.Any != "" {
		ks := anyFieldKinds(m.Any)
		if len(ks) == 0 {
			efail("no tagged heap kind for field %s (unknown field, or its address escapes)", m.Any)
		}
		for _, k := range ks {
			fr.writeKinds = []string{k}
			fr.checkWrite(x, Fresh("anyref", IntS), Fresh("anyoff", IntS), IntLit(1))
			fr.writeKinds = nil
			fr.st.H[k] = Fresh("H!"+baseKind(k), heapSort(k))
		}
		return nil
	}
	havocCellsK := func(ks []string, ref, off *Term) {
		for i, k := range ks {
			fr.writeKinds = []string{k}
			defer func() { fr.writeKinds = nil }()
			fr.checkWrite(x, ref, Add(off, IntLit(int64(i))), IntLit(1))
			fr.st.storeCell(k, ref, Add(off, IntLit(int64(i))), Fresh("hv", kindSort(k)))
		}
	}
	havocCells := func(t types.Type, ref, off *Term) {
		for i, k := range cellKinds(t) {
			fr.checkWrite(x, ref, Add(off, IntLit(int64(i))), IntLit(1))
			fr.st.storeCell(k, ref, Add(off, IntLit(int64(i))), Fresh("hv", kindSort(k)))
		}
	}
	if s, ok := m.E.(*ESel); ok && (s.Name == "$all" || s.Name == "$obj") {
		base := env.eval(s.X)
		if base.K != CVal {
			efail("modifies target is not a reference")
		}
		v := base.V
		switch v.K {
		case VSlice:
			el := v.T.Underlying().(*types.Slice).Elem()
			if s.Name == "$obj" {
				// the whole backing array may change
				fr.checkWrite(x, v.Ref, v.Off, IntLit(0))
				seen := map[string]bool{}
				for _, k := range cellKinds(el) {
					if !seen[k] {
						seen[k] = true
						fr.st.setRow(k, v.Ref, Fresh("row!"+baseKind(k), ArrS(IntS, kindSort(k))))
					}
				}
				return nil
			}
			fr.checkWrite(x, v.Ref, v.Off, Mul(IntLit(sizeOf(el)), v.Len))
			seen := map[string]bool{}
			for _, k := range cellKinds(el) {
				if seen[k] {
					continue
				}
				seen[k] = true
				old := fr.st.row(k, v.Ref)
				nr := Fresh("row!"+k, old.S)
				// cells outside the slice's window keep their values
				j := BoundVar("k", IntS)
				out := Or(Lt(j, v.Off), Ge(j, Add(v.Off, Mul(IntLit(sizeOf(el)), v.Len))))
				fr.assume(Forall([]*Term{j}, Implies(out, Eq(Select(nr, j), Select(old, j)))))
				// a target reached through a nil pointer (p.f[*] with p == nil) names no memory: nothing changes
				if fs, ok := s.X.(*ESel); ok {
					if pb := env.eval(fs.X); pb.K == CVal && pb.V.K == VPtr {
						fr.st.setRow(k, v.Ref, Ite(Eq(pb.V.Ref, IntLit(0)), old, nr))
						continue
					}
				}
				fr.st.setRow(k, v.Ref, nr)
			}
			return nil
		case VPtr:
			pt := v.T.Underlying().(*types.Pointer).Elem()
			havocCells(pt, v.Ref, v.Off)
			return nil
		case VMap:
			return nil
		}
		efail("unsupported modifies target")
	}
	if s, ok := m.E.(*ESel); ok {
		base := env.eval(s.X)
		if base.K == CVal && base.V.K == VPtr {
			nt := base.V.T.Underlying().(*types.Pointer).Elem()
			if st, ok := nt.Underlying().(*types.Struct); ok {
				for i := 0; i < st.NumFields(); i++ {
					if st.Field(i).Name() == s.Name {
						havocCellsK(fieldKinds(nt, st, i), base.V.Ref, Add(base.V.Off, IntLit(fieldOffset(st, i))))
						return nil
					}
				}
			}
		}
	}
	efail("unsupported modifies target %s", m.Src)
	return nil
}

// havocArgs: everything directly reachable from reference arguments may change.
func (fr *Frame) havocArgs(args []*Val) {
	for _, a := range args {
		switch a.K {
		case VSlice:
			el := a.T.Underlying().(*types.Slice).Elem()
			seen := map[string]bool{}
			for _, k := range cellKinds(el) {
				if !seen[k] {
					seen[k] = true
					fr.st.setRow(k, a.Ref, Fresh("row!"+k, ArrS(IntS, kindSort(k))))
				}
			}
		case VPtr:
			if pt, ok := a.T.Underlying().(*types.Pointer); ok {
				seen := map[string]bool{}
				for _, k := range cellKinds(pt.Elem()) {
					if !seen[k] {
						seen[k] = true
						fr.st.setRow(k, a.Ref, Fresh("row!"+k, ArrS(IntS, kindSort(k))))
					}
				}
			}
		}
	}
}

// genericExternal: a function outside the repository without a contract.
func (fr *Frame) genericExternal(x *ssa.Call, callee *ssa.Function, name string, args []*Val) {
	u := fr.u
	u.assumed[fmt.Sprintf("external %s: assumed not to panic and to terminate; result unconstrained; may modify memory directly reachable from its reference arguments", name)] = true
	u.v.assumptions["external "+name+" (no contract): no panic, terminates, result unconstrained"] = true
	fr.havocArgs(args)
	oldNext := fr.st.Next
	{
		var f *Term
		fr.st.Next, f = newNext(oldNext)
		fr.u.facts = append(fr.u.facts, f)
	}
	var res []*Val
	rs := callee.Signature.Results()
	for i := 0; i < rs.Len(); i++ {
		rv := freshVal(rs.At(i).Type(), "r!"+callee.Name())
		fr.u.facts = append(fr.u.facts, validFacts(rv, fr.st.Next, nil)...)
		registerBelow(rv, fr.st.Next)
		res = append(res, rv)
	}
	fr.setResults(x, callee.Signature, res)
}

// invoke: dynamic dispatch through an interface.
func (fr *Frame) invoke(x *ssa.Call, args []*Val) {
	c := &x.Call
	recv := fr.get(c.Value)
	fr.oblig(x, "nil.deref", Not(Eq(recv.S, IntLit(0))), "method call on nil interface")
	// statically known dynamic type?
	if tag, ok := recv.S.Int64(); ok {
		if t := fr.u.v.tagTypes[tag]; t != nil {
			ms := fr.u.v.prog.Prog.MethodSets.MethodSet(t)
			if sel := ms.Lookup(c.Method.Pkg(), c.Method.Name()); sel != nil {
				if fn := fr.u.v.prog.Prog.MethodValue(sel); fn != nil {
					rv := fr.st.load(t, recv.Ref, IntLit(0))
					fr.callFunction(x, fn, append([]*Val{rv}, args...), nil)
					return
				}
			}
		}
	}
	mc := fr.u.v.ifaceContract(c)
	sig := c.Method.Type().(*types.Signature)
	if mc != nil {
		fr.callIfaceContract(x, mc, recv, args, sig)
		return
	}
	name := fmt.Sprintf("%s.%s", types.TypeString(c.Value.Type(), nil), c.Method.Name())
	fr.u.assumed[fmt.Sprintf("interface method %s: assumed not to panic; result unconstrained; may modify memory reachable from its arguments", name)] = true
	fr.havocArgs(args)
	// the receiver's own object may change too
	oldNext := fr.st.Next
	{
		var f *Term
		fr.st.Next, f = newNext(oldNext)
		fr.u.facts = append(fr.u.facts, f)
	}
	var res []*Val
	for i := 0; i < sig.Results().Len(); i++ {
		rv := freshVal(sig.Results().At(i).Type(), "r!"+c.Method.Name())
		fr.u.facts = append(fr.u.facts, validFacts(rv, fr.st.Next, nil)...)
		registerBelow(rv, fr.st.Next)
		res = append(res, rv)
	}
	fr.setResults(x, sig, res)
}

func (v *Verifier) ifaceContract(c *ssa.CallCommon) *Contract {
	if !c.IsInvoke() {
		return nil
	}
	t := c.Value.Type()
	name := types.TypeString(t, func(p *types.Package) string { return shortPkg(p.Path()) })
	return v.lib.Contracts["iface:"+name+"."+c.Method.Name()]
}

func (fr *Frame) callIfaceContract(x *ssa.Call, c *Contract, recv *Val, args []*Val, sig *types.Signature) {
	u := fr.u
	pre := fr.st.clone()
	mkEnv := func(res []*Val, st, old *State) *Env {
		env := &Env{vars: map[string]*CV{}, st: st, old: old, lib: u.v.lib, prog: u.v.prog}
		if old != nil {
			env.oldNext = old.Next
		}
		env.vars["recv"] = cvOfVal(recv)
		for i, a := range args {
			env.vars[fmt.Sprintf("arg%d", i)] = cvOfVal(a)
			if n := sig.Params().At(i).Name(); n != "" && n != "_" {
				env.vars[n] = cvOfVal(a)
			}
		}
		for i, r := range res {
			env.vars[fmt.Sprintf("result%d", i)] = cvOfVal(r)
		}
		if len(res) == 1 {
			env.vars["result"] = cvOfVal(res[0])
		}
		return env
	}
	env := mkEnv(nil, pre, nil)
	for _, rq := range c.Requires {
		t, err := env.evalBool(rq.E)
		if err != nil {
			u.errs = append(u.errs, fmt.Sprintf("%s: requires %s: %v", rq.Where, rq.Src, err))
			continue
		}
		fr.oblig(x, "requires@call", t, "precondition of "+c.Fn+": "+rq.Src)
	}
	if !c.ModSet {
		fr.havocArgs(args)
	} else {
		for _, m := range c.Modifies {
			if err := fr.havocTarget(env, m, x); err != nil {
				u.errs = append(u.errs, fmt.Sprintf("%s: modifies %s: %v", m.Where, m.Src, err))
			}
		}
	}
	oldNext := fr.st.Next
	{
		var f *Term
		fr.st.Next, f = newNext(oldNext)
		fr.u.facts = append(fr.u.facts, f)
	}
	var res []*Val
	for i := 0; i < sig.Results().Len(); i++ {
		rv := freshVal(sig.Results().At(i).Type(), "r!"+c.Fn)
		fr.u.facts = append(fr.u.facts, validFacts(rv, fr.st.Next, nil)...)
		registerBelow(rv, fr.st.Next)
		res = append(res, rv)
	}
	penv := mkEnv(res, fr.st, pre)
	for _, en := range c.Ensures {
		if traceClause(en.Src) {
			continue
		}
		t, err := penv.evalBool(en.E)
		if err != nil {
			u.errs = append(u.errs, fmt.Sprintf("%s: ensures %s: %v", en.Where, en.Src, err))
			continue
		}
		fr.assume(t)
	}
	u.assumed["assumed interface contract "+c.Fn] = true
	fr.setResults(x, sig, res)
}

// ---- builtins

func (fr *Frame) builtin(x *ssa.Call, b *ssa.Builtin) {
	args := x.Call.Args
	mkInt := func(t *Term) *Val {
		v := &Val{K: VScalar, T: x.Type(), S: t}
		return fr.localVal(x, v)
	}
	switch b.Name() {
	case "len":
		a := fr.get(args[0])
		switch a.K {
		case VSlice, VString:
			fr.set(x, mkInt(a.Len))
		case VMap:
			n := fr.st.loadCell("int", a.S, IntLit(0))
			fr.assume(And(Le(IntLit(0), n), Le(n, IntBig(MaxLen)), Implies(Eq(a.S, IntLit(0)), Eq(n, IntLit(0)))))
			fr.set(x, mkInt(n))
		case VTuple:
			fr.set(x, mkInt(IntLit(int64(len(a.El)))))
		case VPtr:
			ar := args[0].Type().Underlying().(*types.Pointer).Elem().Underlying().(*types.Array)
			fr.set(x, mkInt(IntLit(ar.Len())))
		default:
			unsup("len of %v", args[0].Type())
		}
	case "cap":
		a := fr.get(args[0])
		switch a.K {
		case VSlice:
			fr.set(x, mkInt(a.Cap))
		case VTuple:
			fr.set(x, mkInt(IntLit(int64(len(a.El)))))
		default:
			unsup("cap of %v", args[0].Type())
		}
	case "append":
		fr.set(x, fr.appendBuiltin(x, fr.get(args[0]), fr.get(args[1]), args[1].Type()))
	case "copy":
		dst, src := fr.get(args[0]), fr.get(args[1])
		n := Ite(Lt(dst.Len, src.Len), dst.Len, src.Len)
		el := args[0].Type().Underlying().(*types.Slice).Elem()
		k := scalarKind(el)
		if k == "" {
			unsup("copy of non-scalar elements")
		}
		var srow *Term
		if src.K == VString {
			srow = fr.strRow(src)
		} else {
			srow = fr.st.row(k, src.Ref)
		}
		fr.checkWrite(x, dst.Ref, dst.Off, n)
		// n == 0 must not touch a nil destination
		nr := fr.copyRange(fr.st.row(k, dst.Ref), dst.Off, srow, src.Off, n)
		fr.st.setRow(k, dst.Ref, nr)
		fr.set(x, mkInt(n))
	case "delete":
		m := fr.get(args[0])
		n := Fresh("maplen", IntS)
		fr.assume(Le(IntLit(0), n))
		fr.u.assume(And(fr.reach, Not(Eq(m.S, IntLit(0)))), True)
		if m.S != IntLit(0) {
			fr.st.storeCell("int", m.S, IntLit(0), n)
		}
		fr.set(x, &Val{K: VTuple, T: x.Type()})
	case "print", "println":
		fr.set(x, &Val{K: VTuple, T: x.Type()})
	case "min", "max":
		a, c := fr.intOf(args[0]), fr.intOf(args[1])
		r := Ite(Lt(a, c), a, c)
		if b.Name() == "max" {
			r = Ite(Lt(a, c), c, a)
		}
		if !isGoInt(x.Type()) {
			unsup("min/max on %v", x.Type())
		}
		fr.set(x, mkInt(r))
	default:
		unsup("builtin %s", b.Name())
	}
}

func (fr *Frame) appendBuiltin(x *ssa.Call, s, t *Val, tT types.Type) *Val {
	st := x.Type().Underlying().(*types.Slice)
	el := st.Elem()
	sz := sizeOf(el)
	kinds := cellKinds(el)
	var n *Term
	if t.K == VString {
		n = t.Len
	} else {
		n = t.Len
	}
	newLen := Add(s.Len, n)
	fits := Le(newLen, s.Cap)
	fitsReal := fits
	uniq1 := s.Unique && (singleUse(x.Call.Args[0]) || deadAfter(x.Call.Args[0], x))
	if uniq1 {
		// s is exclusively owned and dead after this call: growing in place and
		// reallocating are indistinguishable, so one case suffices
		fits = False
	}
	if k, ok := n.Int64(); ok && k == 0 {
		// append(s) / append(s, empty...): result is s itself
		return s
	}
	fresh := fr.allocRaw()
	ncap := Fresh("cap", IntS)
	fr.assume(And(Le(newLen, ncap), Le(ncap, IntBig(MaxLen)))) // A-mem
	seen := map[string]bool{}
	uniq := []string{}
	for _, k := range kinds {
		if !seen[k] {
			seen[k] = true
			uniq = append(uniq, k)
		}
	}
	// in-place write is a write into the backing array of s
	inPlace := fits != False
	if inPlace {
		sv := fr.reach
		fr.reach = And(fr.reach, fits)
		fr.checkWrite(x, s.Ref, Add(s.Off, Mul(IntLit(sz), s.Len)), Mul(IntLit(sz), n))
		fr.reach = sv
	}
	resRef, resOff := Ite(fits, s.Ref, fresh), Ite(fits, s.Off, IntLit(0))
	for _, k := range uniq {
		var srow *Term
		if t.K == VString {
			srow = fr.strRow(t)
		} else {
			srow = fr.st.row(k, t.Ref)
		}
		cells := Mul(IntLit(sz), n)
		oldCells := Mul(IntLit(sz), s.Len)
		oldRow := fr.st.row(k, s.Ref)
		zero := ConstArr(ArrS(IntS, kindSort(k)), zeroTerm(k))
		h := fr.st.heap(k)
		_, c1 := oldCells.Int64()
		_, c2 := cells.Int64()
		if fits != False {
			// in place: the backing array of s gets the new elements after its length
			irow := fr.copyRange(oldRow, Add(s.Off, oldCells), srow, t.Off, cells)
			h = Store(h, s.Ref, Ite(fits, irow, oldRow))
		}
		if fits != True {
			// reallocation: a fresh array holding old contents then the new elements
			var nrow *Term
			_, l1 := iteLitMax(oldCells)
			_, l2 := iteLitMax(cells)
			if (c1 && c2) || fr.u.unrollAll > 0 || (l1 && l2) {
				nrow = fr.copyRange(zero, IntLit(0), oldRow, s.Off, oldCells)
				nrow = fr.copyRange(nrow, oldCells, srow, t.Off, cells)
			} else {
				nrow = Fresh("row", zero.S)
				j := BoundVar("k", IntS)
				fr.assume(Forall([]*Term{j}, Eq(Select(nrow, j),
					Ite(And(Le(IntLit(0), j), Lt(j, oldCells)), Select(oldRow, Add(s.Off, j)),
						Ite(And(Le(oldCells, j), Lt(j, Add(oldCells, cells))), Select(srow, Add(t.Off, Sub(j, oldCells))), zeroTerm(k))))))
			}
			h = Store(h, fresh, nrow)
		}
		fr.st.H[k] = h
	}
	return &Val{K: VSlice, T: x.Type(), Ref: resRef, Off: resOff, Len: newLen, Cap: Ite(fitsReal, s.Cap, ncap), Unique: fits == False}
}

// ---- external models coded in Go (those that need shapes the contract language lacks)

type extModel struct {
	pure       bool
	writesArgs []int
	kinds      []string
	fn         func(fr *Frame, x *ssa.Call, args []*Val) []*Val
}

func (v *Verifier) externalModel(name string) *extModel {
	return extModels[name]
}

var extModels = map[string]*extModel{}

func sortIfaceModel(name string) *extModel {
	return &extModel{fn: func(fr *Frame, x *ssa.Call, args []*Val) []*Val {
		box := args[0]
		if tag, ok := box.S.Int64(); ok {
			if t := fr.u.v.tagTypes[tag]; t != nil {
				if sl, ok := t.Underlying().(*types.Slice); ok {
					hdr := fr.st.load(t, box.Ref, IntLit(0))
					if name == "sort.Sort" {
						fr.checkWrite(x, hdr.Ref, hdr.Off, Mul(IntLit(sizeOf(sl.Elem())), hdr.Len))
						fr.permuteRows(hdr, sl.Elem())
						fr.u.assumed["sort.Sort: permutes the elements of its argument in place calling only Len/Less/Swap; if Less is a strict weak order the result is sorted by it (assumed; the element values after the call are unconstrained in this model)"] = true
						return nil
					}
					fr.u.assumed["sort.IsSorted: reads its argument only; true exactly when no element is Less than its predecessor (assumed; result unconstrained in this model)"] = true
					return []*Val{{K: VScalar, T: types.Typ[types.Bool], S: Fresh("issorted", BoolS)}}
				}
			}
		}
		unsup("%s on a value whose dynamic type is not statically known", name)
		return nil
	}}
}

func init() {
	// sort.Reverse(x) wraps x so that Less is flipped: for this model (which leaves the element values after a
	// sort unconstrained) the wrapper is represented by the wrapped value itself.
	extModels["sort.Reverse"] = &extModel{pure: true, fn: func(fr *Frame, x *ssa.Call, args []*Val) []*Val {
		v := *args[0]
		fr.u.assumed["sort.Reverse: returns a sort.Interface over the same data with Less flipped (modelled as the wrapped value; order after sorting is not modelled)"] = true
		return []*Val{&v}
	}}
	extModels["sort.Sort"] = sortIfaceModel("sort.Sort")
	extModels["sort.IsSorted"] = sortIfaceModel("sort.IsSorted")
	// sort.Slice(x, less): x is a slice boxed in an interface; its backing array is permuted.
	// Assumed: less is pure, sort.Slice only swaps elements of x and terminates.
	extModels["sort.Slice"] = &extModel{fn: func(fr *Frame, x *ssa.Call, args []*Val) []*Val {
		box := args[0]
		if tag, ok := box.S.Int64(); ok {
			if t := fr.u.v.tagTypes[tag]; t != nil {
				if sl, ok := t.Underlying().(*types.Slice); ok {
					hdr := fr.st.load(t, box.Ref, IntLit(0))
					fr.checkWrite(x, hdr.Ref, hdr.Off, Mul(IntLit(sizeOf(sl.Elem())), hdr.Len))
					fr.permuteRows(hdr, sl.Elem())
					fr.u.assumed["sort.Slice: permutes the slice in place using only the comparator (which must be pure); element values after the call are unconstrained in this model"] = true
					return nil
				}
			}
		}
		unsup("sort.Slice on a value whose dynamic type is not statically known")
		return nil
	}}
}

// ---- constant initialisers of globals

func (p *Program) allPackages() []*packages.Package {
	var out []*packages.Package
	packages.Visit(p.Pkgs, nil, func(pk *packages.Package) { out = append(out, pk) })
	return out
}

func findValueSpec(f *ast.File, id *ast.Ident) *ast.ValueSpec {
	var out *ast.ValueSpec
	ast.Inspect(f, func(n ast.Node) bool {
		if vs, ok := n.(*ast.ValueSpec); ok {
			for _, nm := range vs.Names {
				if nm == id {
					out = vs
				}
			}
		}
		return out == nil
	})
	return out
}

// constCells evaluates a constant composite literal into flattened cell terms.
func constCells(info *types.Info, e ast.Expr, t types.Type) ([]*Term, bool) {
	if tv, ok := info.Types[e]; ok && tv.Value != nil {
		switch tv.Value.Kind() {
		case constant.Int:
			bi, _ := new(big.Int).SetString(tv.Value.ExactString(), 10)
			if isGoInt(t) {
				return []*Term{IntBig(bi)}, true
			}
			if w := bvWidth(t); w > 0 {
				return []*Term{BVBig(bi, w)}, true
			}
		case constant.Bool:
			return []*Term{BoolT(constant.BoolVal(tv.Value))}, true
		}
		return nil, false
	}
	cl, ok := e.(*ast.CompositeLit)
	if !ok {
		return nil, false
	}
	switch u := t.Underlying().(type) {
	case *types.Array:
		esz := int(sizeOf(u.Elem()))
		out := make([]*Term, int(u.Len())*esz)
		// zero fill
		zk := cellKinds(u.Elem())
		for i := 0; i < int(u.Len()); i++ {
			for j, k := range zk {
				out[i*esz+j] = zeroTerm(k)
			}
		}
		idx := 0
		for _, el := range cl.Elts {
			val := el
			if kv, ok := el.(*ast.KeyValueExpr); ok {
				ktv, ok := info.Types[kv.Key]
				if !ok || ktv.Value == nil {
					return nil, false
				}
				k64, _ := constant.Int64Val(ktv.Value)
				idx = int(k64)
				val = kv.Value
			}
			cells, ok := constCells(info, val, u.Elem())
			if !ok || len(cells) != esz {
				return nil, false
			}
			copy(out[idx*esz:], cells)
			idx++
		}
		return out, true
	}
	return nil, false
}

// substDefinitional: for top-level conjuncts `v == t` of the postcondition
// where v is a fresh result variable not occurring in t, replace v by t.
func substDefinitional(res []*Val, ens []*Term) ([]*Val, []*Term) {
	isRes := map[*Term]bool{}
	for _, r := range res {
		for _, t := range flatten(r, nil) {
			if t.Op == "var" {
				isRes[t] = true
			}
		}
	}
	for round := 0; round < 4; round++ {
		m := map[*Term]*Term{}
		var conj []*Term
		for _, e := range ens {
			if e.Op == "and" {
				conj = append(conj, e.Args...)
			} else {
				conj = append(conj, e)
			}
		}
		for _, c := range conj {
			if c.Op != "=" {
				continue
			}
			for _, p := range [][2]*Term{{c.Args[0], c.Args[1]}, {c.Args[1], c.Args[0]}} {
				v, t := p[0], p[1]
				if !isRes[v] || m[v] != nil {
					continue
				}
				if mentions(t, isRes) {
					continue
				}
				m[v] = t
				break
			}
		}
		if len(m) == 0 {
			break
		}
		for v := range m {
			delete(isRes, v)
		}
		for i, e := range ens {
			ens[i] = Subst(e, m)
		}
		for i, r := range res {
			fl := flatten(r, nil)
			ch := false
			for j, t := range fl {
				if n := Subst(t, m); n != t {
					fl[j] = n
					ch = true
				}
			}
			if ch {
				res[i] = rebuildLike(r, fl)
			}
		}
	}
	return res, ens
}

func mentions(t *Term, set map[*Term]bool) bool {
	ord, _ := collect([]*Term{t})
	for _, x := range ord {
		if set[x] {
			return true
		}
	}
	return false
}

// singleUse: the SSA value has exactly one use besides debug references.
func singleUse(v ssa.Value) bool {
	rs := v.Referrers()
	if rs == nil {
		return false
	}
	n := 0
	for _, r := range *rs {
		if _, ok := r.(*ssa.DebugRef); ok {
			continue
		}
		n++
	}
	return n == 1
}

// uniqueDef: syntactic ownership check — value v is a freshly allocated slice
// that is never stored, captured or aliased before it is returned.
func (v *Verifier) uniqueDef(x ssa.Value, depth int) bool {
	if depth > 6 {
		return false
	}
	okUses := func(val ssa.Value) bool {
		for _, r := range *val.Referrers() {
			switch u := r.(type) {
			case *ssa.DebugRef, *ssa.Return:
			case *ssa.IndexAddr:
				for _, rr := range *u.Referrers() {
					switch w := rr.(type) {
					case *ssa.Store:
						if w.Addr != ssa.Value(u) {
							return false
						}
					case *ssa.UnOp, *ssa.DebugRef:
					default:
						return false
					}
				}
			case *ssa.Call:
				if b, ok := u.Call.Value.(*ssa.Builtin); ok {
					switch b.Name() {
					case "len", "cap", "copy":
						continue
					case "append":
						if u.Call.Args[0] == val && singleUse(val) {
							continue
						}
					}
				}
				return false
			default:
				return false
			}
		}
		return true
	}
	switch d := x.(type) {
	case *ssa.MakeSlice:
		return okUses(d)
	case *ssa.Slice:
		// make([]T, const) is lowered to new [N]T + slice
		if a, ok := d.X.(*ssa.Alloc); ok && a.Heap && singleUse(a) {
			return okUses(d)
		}
	case *ssa.Call:
		if b, ok := d.Call.Value.(*ssa.Builtin); ok && b.Name() == "append" {
			return v.uniqueDef(d.Call.Args[0], depth+1) && okUses(d)
		}
		if d.Call.IsInvoke() {
			if mc := v.ifaceContract(&d.Call); mc != nil && contractResultUnique(mc) {
				return okUses(d)
			}
			return false
		}
		if callee := d.Call.StaticCallee(); callee != nil {
			if c := v.lib.Contracts[v.prog.names[callee]]; c != nil && contractResultUnique(c) {
				return okUses(d)
			}
			// loop-free helper that will be inlined: look through it
			if v.prog.inRepo(callee) && len(v.info(callee).Loops) == 0 {
				for _, b := range callee.Blocks {
					for _, in := range b.Instrs {
						if r, ok := in.(*ssa.Return); ok && len(r.Results) == 1 {
							if !v.uniqueDefThroughParams(r.Results[0], callee, d.Call.Args, depth+1) {
								return false
							}
						}
					}
				}
				return okUses(d)
			}
		}
	}
	return false
}

func (v *Verifier) uniqueDefThroughParams(x ssa.Value, callee *ssa.Function, args []ssa.Value, depth int) bool {
	if c, ok := x.(*ssa.Call); ok {
		if b, ok := c.Call.Value.(*ssa.Builtin); ok && b.Name() == "append" {
			if p, ok := c.Call.Args[0].(*ssa.Parameter); ok {
				for i, q := range callee.Params {
					if q == p && singleUse(p) && singleUse(args[i]) {
						return v.uniqueDef(args[i], depth+1)
					}
				}
				return false
			}
		}
	}
	return v.uniqueDef(x, depth+1)
}

func contractResultUnique(c *Contract) bool {
	for _, e := range c.Ensures {
		if strings.Contains(e.Src, "unique(result") {
			return true
		}
	}
	return false
}

// deadAfter: no use of v other than `at` can execute after `at` without v being
// redefined first (v's defining block — for a φ, the loop head — is on every such path).
func deadAfter(v ssa.Value, at ssa.Instruction) bool {
	rs := v.Referrers()
	if rs == nil {
		return false
	}
	var defBlk *ssa.BasicBlock
	if in, ok := v.(ssa.Instruction); ok {
		defBlk = in.Block()
	} else {
		return false
	}
	ab := at.Block()
	// blocks reachable from `at` without passing through defBlk
	reach := map[*ssa.BasicBlock]bool{}
	var stack []*ssa.BasicBlock
	for _, s := range ab.Succs {
		if s != defBlk {
			stack = append(stack, s)
		}
	}
	for len(stack) > 0 {
		b := stack[len(stack)-1]
		stack = stack[:len(stack)-1]
		if reach[b] {
			continue
		}
		reach[b] = true
		for _, s := range b.Succs {
			if s != defBlk && !reach[s] {
				stack = append(stack, s)
			}
		}
	}
	for _, r := range *rs {
		if r == at {
			continue
		}
		if _, ok := r.(*ssa.DebugRef); ok {
			continue
		}
		rb := r.Block()
		if reach[rb] {
			return false
		}
		if rb == ab {
			// same block: must come before `at`
			after := false
			for _, in := range ab.Instrs {
				if in == at {
					after = true
					continue
				}
				if in == r && after {
					return false
				}
			}
		}
		if rb == defBlk && defBlk == ab {
			continue
		}
	}
	return true
}

var traceRe = regexp.MustCompile(`\$calls_|\$ret[0-9]*_|\$loc_`)

// traceClause: the clause speaks about the calls made by the function's own body.
func traceClause(src string) bool { return traceRe.MatchString(src) }

// anyFieldKinds: the heap kinds private to struct field pkg.Type.field (non-empty only when the
// field's cells live in their own tagged kinds, i.e. its address never escapes).
func anyFieldKinds(key string) []string {
	var out []string
	for k := range kindsSeen {
		if strings.HasSuffix(k, "@"+key) {
			out = append(out, k)
		}
	}
	sort.Strings(out)
	return out
}

// permuteRows: the elements of slice hdr are rearranged in place: every cell row of the backing array is
// replaced by a fresh one whose element k is the old element pi(k), pi an injective map of [0,len) into
// itself (a fresh uninterpreted function); cells outside the slice's window keep their values.
func (fr *Frame) permuteRows(hdr *Val, el types.Type) {
	kinds := cellKinds(el)
	sz := int64(len(kinds))
	freshN++
	pi := DeclareFun(fmt.Sprintf("perm!%d", freshN), []*Sort{IntS}, IntS)
	k := BoundVar("k", IntS)
	k2 := BoundVar("k2", IntS)
	inR := func(x *Term) *Term { return And(Le(IntLit(0), x), Lt(x, hdr.Len)) }
	fr.assume(Forall([]*Term{k}, Implies(inR(k), inR(App(pi, IntS, k)))))
	fr.assume(Forall([]*Term{k, k2}, Implies(And(inR(k), inR(k2), Eq(App(pi, IntS, k), App(pi, IntS, k2))), Eq(k, k2))))
	oldRows := map[string]*Term{}
	newRows := map[string]*Term{}
	for _, kd := range kinds {
		if _, ok := oldRows[kd]; !ok {
			oldRows[kd] = fr.st.row(kd, hdr.Ref)
			newRows[kd] = Fresh("row!sorted", ArrS(IntS, kindSort(kd)))
		}
	}
	for c, kd := range kinds {
		ci := IntLit(int64(c))
		newIdx := Add(hdr.Off, Add(Mul(IntLit(sz), k), ci))
		oldIdx := Add(hdr.Off, Add(Mul(IntLit(sz), App(pi, IntS, k)), ci))
		fr.assume(Forall([]*Term{k}, Implies(inR(k), Eq(Select(newRows[kd], newIdx), Select(oldRows[kd], oldIdx)))))
	}
	j := BoundVar("j", IntS)
	for kd, nr := range newRows {
		out := Or(Lt(j, hdr.Off), Ge(j, Add(hdr.Off, Mul(IntLit(sz), hdr.Len))))
		fr.assume(Forall([]*Term{j}, Implies(out, Eq(Select(nr, j), Select(oldRows[kd], j)))))
		fr.st.setRow(kd, hdr.Ref, nr)
	}
}

// lemmaInstance: the statement of lemma call.Fun with its parameters replaced by the values of the
// argument expressions in env (the lemma itself is discharged as part of every property that uses it).
func (v *Verifier) lemmaInstance(env *Env, call *ECall) (*Term, error) {
	l := v.lib.Lemmas[call.Fun]
	if l == nil || len(call.Args) != len(l.Params) {
		return nil, fmt.Errorf("unknown lemma or wrong arity")
	}
	lenv, lvars := v.lib.paramEnv(l.Params, "", true)
	stmt, err := lenv.evalBool(l.Stmt)
	if err != nil {
		return nil, err
	}
	m := map[*Term]*Term{}
	k := 0
	for i, p := range l.Params {
		cv, err := env.safeEval(call.Args[i])
		if err != nil {
			return nil, err
		}
		for _, t := range env.coerceTo(cv, p.Type) {
			m[lvars[k]] = t
			k++
		}
	}
	return skolemizeHyp(Subst(stmt, m)), nil
}
