// cexpr.go: the contract / spec expression language (Go-expression flavoured,
// plus ==>, forall/exists, old(), c ? a : b, let).
package main

import (
	"fmt"
	"math/big"
	"strings"
)

type Expr interface{}

type (
	EIdent  struct{ Name string }
	EInt    struct{ V *big.Int }
	EStr    struct{ S string }
	EBool   struct{ B bool }
	ENil    struct{}
	EUnary  struct {
		Op string
		X  Expr
	}
	EBinary struct {
		Op   string
		X, Y Expr
	}
	ECall struct {
		Fun  string
		Args []Expr
	}
	EIndex struct{ X, I Expr }
	ESlice struct{ X, Lo, Hi Expr }
	ESel   struct {
		X    Expr
		Name string
	}
	EQuant struct {
		Forall bool
		Vars   []string
		Types  []string
		Body   Expr
	}
	ECond struct{ C, A, B Expr }
	ELet  struct {
		Name      string
		Val, Body Expr
	}
)

type tok struct {
	k   string // "id", "int", "str", "op", "eof"
	s   string
	v   *big.Int
	pos int
}

type lexer struct {
	src  string
	toks []tok
	p    int
}

func lex(src string) ([]tok, error) {
	var ts []tok
	i := 0
	isIdStart := func(c byte) bool { return c == '_' || c == '$' || (c >= 'a' && c <= 'z') || (c >= 'A' && c <= 'Z') }
	isId := func(c byte) bool { return isIdStart(c) || (c >= '0' && c <= '9') || c == '#' }
	for i < len(src) {
		c := src[i]
		switch {
		case c == ' ' || c == '\t' || c == '\n' || c == '\r':
			i++
		case isIdStart(c):
			j := i + 1
			for j < len(src) && isId(src[j]) {
				j++
			}
			ts = append(ts, tok{k: "id", s: src[i:j], pos: i})
			i = j
		case c >= '0' && c <= '9':
			j := i
			for j < len(src) && (isId(src[j])) {
				j++
			}
			txt := strings.ReplaceAll(src[i:j], "_", "")
			v, ok := new(big.Int).SetString(txt, 0)
			if !ok {
				return nil, fmt.Errorf("bad number %q", src[i:j])
			}
			ts = append(ts, tok{k: "int", s: src[i:j], v: v, pos: i})
			i = j
		case c == '\'':
			if i+2 < len(src) && src[i+2] == '\'' {
				ts = append(ts, tok{k: "int", s: src[i : i+3], v: big.NewInt(int64(src[i+1])), pos: i})
				i += 3
			} else {
				return nil, fmt.Errorf("bad char literal at %d", i)
			}
		case c == '"':
			j := i + 1
			for j < len(src) && src[j] != '"' {
				j++
			}
			if j >= len(src) {
				return nil, fmt.Errorf("unterminated string")
			}
			ts = append(ts, tok{k: "str", s: src[i+1 : j], pos: i})
			i = j + 1
		default:
			ops := []string{"==>", "<==>", "&&", "||", "==", "!=", "<=", ">=", "<<", ">>", "&^", "::", "+", "-", "*", "/", "%", "&", "|", "^", "<", ">", "!", "(", ")", "[", "]", ".", ",", ":", "?", "="}
			found := ""
			for _, o := range ops {
				if strings.HasPrefix(src[i:], o) && len(o) > len(found) {
					found = o
				}
			}
			if found == "" {
				return nil, fmt.Errorf("unexpected character %q at %d in %q", c, i, src)
			}
			ts = append(ts, tok{k: "op", s: found, pos: i})
			i += len(found)
		}
	}
	ts = append(ts, tok{k: "eof", pos: len(src)})
	return ts, nil
}

type parser struct {
	toks []tok
	p    int
	src  string
}

func parseExpr(src string) (e Expr, err error) {
	ts, err := lex(src)
	if err != nil {
		return nil, err
	}
	ps := &parser{toks: ts, src: src}
	defer func() {
		if r := recover(); r != nil {
			if pe, ok := r.(parseErr); ok {
				err = fmt.Errorf("%s in %q", string(pe), src)
				return
			}
			panic(r)
		}
	}()
	e = ps.expr()
	if ps.peek().k != "eof" {
		ps.fail("unexpected %q", ps.peek().s)
	}
	return e, nil
}

type parseErr string

func (p *parser) fail(f string, a ...interface{}) { panic(parseErr(fmt.Sprintf(f, a...))) }
func (p *parser) peek() tok                       { return p.toks[p.p] }
func (p *parser) next() tok                       { t := p.toks[p.p]; p.p++; return t }
func (p *parser) isOp(s string) bool              { t := p.peek(); return t.k == "op" && t.s == s }
func (p *parser) accept(s string) bool {
	if p.isOp(s) {
		p.p++
		return true
	}
	return false
}
func (p *parser) expect(s string) {
	if !p.accept(s) {
		p.fail("expected %q, found %q", s, p.peek().s)
	}
}

func (p *parser) expr() Expr {
	t := p.peek()
	if t.k == "id" && (t.s == "forall" || t.s == "exists") {
		p.next()
		q := &EQuant{Forall: t.s == "forall"}
		for {
			id := p.next()
			if id.k != "id" {
				p.fail("expected bound variable")
			}
			q.Vars = append(q.Vars, id.s)
			ty := "int"
			if p.peek().k == "id" {
				ty = p.next().s
			}
			q.Types = append(q.Types, ty)
			if !p.accept(",") {
				break
			}
		}
		p.expect("::")
		q.Body = p.expr()
		return q
	}
	if t.k == "id" && t.s == "let" {
		p.next()
		id := p.next()
		p.expect("=")
		v := p.expr1()
		if in := p.next(); in.k != "id" || in.s != "in" {
			p.fail("expected 'in'")
		}
		return &ELet{Name: id.s, Val: v, Body: p.expr()}
	}
	return p.expr1()
}

// expr1: implication level (no leading quantifier)
func (p *parser) expr1() Expr {
	l := p.cond()
	if p.accept("==>") {
		r := p.expr() // right assoc, may start a quantifier
		return &EBinary{Op: "==>", X: l, Y: r}
	}
	if p.accept("<==>") {
		r := p.expr()
		return &EBinary{Op: "<==>", X: l, Y: r}
	}
	return l
}

func (p *parser) cond() Expr {
	c := p.binary(1)
	if p.accept("?") {
		a := p.expr()
		p.expect(":")
		b := p.expr()
		return &ECond{C: c, A: a, B: b}
	}
	return c
}

func prec(op string) int {
	switch op {
	case "||":
		return 1
	case "&&":
		return 2
	case "==", "!=", "<", "<=", ">", ">=":
		return 3
	case "+", "-", "|", "^":
		return 4
	case "*", "/", "%", "<<", ">>", "&", "&^":
		return 5
	}
	return 0
}

func (p *parser) binary(min int) Expr {
	l := p.unary()
	for {
		t := p.peek()
		if t.k != "op" {
			return l
		}
		pr := prec(t.s)
		if pr == 0 || pr < min {
			return l
		}
		p.next()
		var r Expr
		if pk := p.peek(); pk.k == "id" && (pk.s == "forall" || pk.s == "exists") {
			r = p.expr()
		} else {
			r = p.binary(pr + 1)
		}
		l = &EBinary{Op: t.s, X: l, Y: r}
	}
}

func (p *parser) unary() Expr {
	t := p.peek()
	if t.k == "op" && (t.s == "!" || t.s == "-" || t.s == "^" || t.s == "*") {
		p.next()
		return &EUnary{Op: t.s, X: p.unary()}
	}
	if t.k == "op" && t.s == "&" {
		// &pkg.Global / &Global: the address of a package-level variable
		p.next()
		x := p.postfix(p.primary())
		name, ok := dotted(x)
		if !ok {
			p.fail("& needs a (qualified) package variable")
		}
		return &EIdent{Name: "&" + name}
	}
	return p.postfix(p.primary())
}

func (p *parser) primary() Expr {
	t := p.next()
	switch t.k {
	case "int":
		return &EInt{V: t.v}
	case "str":
		return &EStr{S: t.s}
	case "id":
		switch t.s {
		case "true":
			return &EBool{true}
		case "false":
			return &EBool{false}
		case "nil":
			return &ENil{}
		}
		return &EIdent{Name: t.s}
	case "op":
		if t.s == "(" {
			e := p.expr()
			p.expect(")")
			return e
		}
	}
	p.fail("unexpected %q", t.s)
	return nil
}

func dotted(e Expr) (string, bool) {
	switch x := e.(type) {
	case *EIdent:
		return x.Name, true
	case *ESel:
		if s, ok := dotted(x.X); ok {
			return s + "." + x.Name, true
		}
	}
	return "", false
}

func (p *parser) postfix(e Expr) Expr {
	for {
		switch {
		case p.accept("."):
			id := p.next()
			if id.k != "id" {
				p.fail("expected field name")
			}
			e = &ESel{X: e, Name: id.s}
		case p.accept("["):
			if p.accept(":") {
				var hi Expr
				if !p.isOp("]") {
					hi = p.expr()
				}
				p.expect("]")
				e = &ESlice{X: e, Hi: hi}
				continue
			}
			i := p.expr()
			if p.accept(":") {
				var hi Expr
				if !p.isOp("]") {
					hi = p.expr()
				}
				p.expect("]")
				e = &ESlice{X: e, Lo: i, Hi: hi}
				continue
			}
			p.expect("]")
			e = &EIndex{X: e, I: i}
		case p.isOp("("):
			name, ok := dotted(e)
			if !ok {
				p.fail("call of non-name")
			}
			p.next()
			var args []Expr
			for !p.isOp(")") {
				args = append(args, p.expr())
				if !p.accept(",") {
					break
				}
			}
			p.expect(")")
			e = &ECall{Fun: name, Args: args}
		default:
			return e
		}
	}
}

func exprString(e Expr) string {
	switch x := e.(type) {
	case *EIdent:
		return x.Name
	case *EInt:
		return x.V.String()
	case *EStr:
		return fmt.Sprintf("%q", x.S)
	case *EBool:
		return fmt.Sprint(x.B)
	case *ENil:
		return "nil"
	case *EUnary:
		return x.Op + exprString(x.X)
	case *EBinary:
		return "(" + exprString(x.X) + " " + x.Op + " " + exprString(x.Y) + ")"
	case *ECall:
		as := make([]string, len(x.Args))
		for i, a := range x.Args {
			as[i] = exprString(a)
		}
		return x.Fun + "(" + strings.Join(as, ", ") + ")"
	case *EIndex:
		return exprString(x.X) + "[" + exprString(x.I) + "]"
	case *ESlice:
		lo, hi := "", ""
		if x.Lo != nil {
			lo = exprString(x.Lo)
		}
		if x.Hi != nil {
			hi = exprString(x.Hi)
		}
		return exprString(x.X) + "[" + lo + ":" + hi + "]"
	case *ESel:
		return exprString(x.X) + "." + x.Name
	case *EQuant:
		q := "exists"
		if x.Forall {
			q = "forall"
		}
		return q + " " + strings.Join(x.Vars, ", ") + " :: " + exprString(x.Body)
	case *ECond:
		return "(" + exprString(x.C) + " ? " + exprString(x.A) + " : " + exprString(x.B) + ")"
	case *ELet:
		return "let " + x.Name + " = " + exprString(x.Val) + " in " + exprString(x.Body)
	}
	return fmt.Sprintf("%v", e)
}
