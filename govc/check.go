// check.go: `govc check <property> [quick|thorough]` — the registered check.
package main

import (
	"golang.org/x/tools/go/ssa"
	"encoding/json"
	"flag"
	"fmt"
	"os"
	"path/filepath"
	"sort"
	"strconv"
	"strings"
	"time"
)

type PropConfig struct {
	ID        string   `json:"id"`
	Functions []string `json:"functions"`          // functions under contract whose obligations decide the property
	Lemmas    []string `json:"lemmas"`             // spec-library lemmas (prefix match)
	Thorough  struct {
		Functions []string `json:"functions"`
		Lemmas    []string `json:"lemmas"`
	} `json:"thorough"`
	Assumptions []string `json:"assumptions"` // stated, property-level
	Undecided   []string `json:"undecided"`   // sub-claims not decided by this check
	Bounded     []string `json:"bounded"`     // lemma functions that are bounded stand-ins (name prefix)
	TrustedBase []string `json:"trusted_base"`
	// obligations generated for the listed functions that belong to another property's decision
	Excluded []struct {
		Match  string `json:"match"`
		Reason string `json:"reason"`
	} `json:"excluded"`
}

type Finding struct {
	Kind       string // "finding" | "fixed"
	Property   string
	Obligation string
	Text       string
}

func loadFindings(path string) ([]Finding, error) {
	b, err := os.ReadFile(path)
	if err != nil {
		if os.IsNotExist(err) {
			return nil, nil
		}
		return nil, err
	}
	var out []Finding
	for _, ln := range strings.Split(string(b), "\n") {
		ln = strings.TrimSpace(ln)
		if ln == "" || strings.HasPrefix(ln, "#") {
			continue
		}
		var f Finding
		switch {
		case strings.HasPrefix(ln, "finding:"):
			f.Kind = "finding"
			ln = strings.TrimSpace(strings.TrimPrefix(ln, "finding:"))
		case strings.HasPrefix(ln, "fixed:"):
			f.Kind = "fixed"
			ln = strings.TrimSpace(strings.TrimPrefix(ln, "fixed:"))
		default:
			continue
		}
		rest := []string{}
		for _, w := range strings.Fields(ln) {
			switch {
			case strings.HasPrefix(w, "property="):
				f.Property = strings.TrimPrefix(w, "property=")
			case strings.HasPrefix(w, "obligation="):
				f.Obligation = strings.TrimPrefix(w, "obligation=")
			default:
				rest = append(rest, w)
			}
		}
		f.Text = strings.Join(rest, " ")
		out = append(out, f)
	}
	return out, nil
}

type oblRecord struct {
	Name    string  `json:"name"`
	Kind    string  `json:"kind"`
	Fn      string  `json:"function"`
	Pos     string  `json:"pos"`
	Clause  string  `json:"clause,omitempty"`
	Status  string  `json:"status"`
	Backend string  `json:"backend"`
	Second  string  `json:"second_backend,omitempty"`
	Time    float64 `json:"time_s"`
	SMTSize int     `json:"smt_bytes"`
}

func cmdCheck(args []string) int {
	fs := flag.NewFlagSet("check", flag.ExitOnError)
	repo := fs.String("repo", "/repo", "repository")
	verif := fs.String("verif", "/verif", "verification directory")
	fs.Parse(args)
	if fs.NArg() < 1 {
		fmt.Fprintln(os.Stderr, "usage: govc check <property> [quick|thorough]")
		return 2
	}
	id := fs.Arg(0)
	tier := "quick"
	if fs.NArg() > 1 {
		tier = fs.Arg(1)
	}
	if t := os.Getenv("VERIF_TIER"); t == "quick" || t == "thorough" {
		if fs.NArg() <= 1 {
			tier = t
		}
	}
	seed := 0
	if s := os.Getenv("VERIF_SEED"); s != "" {
		seed, _ = strconv.Atoi(s)
	}
	t0 := time.Now()
	var cfg PropConfig
	b, err := os.ReadFile(filepath.Join(*verif, "props", id+".json"))
	if err != nil {
		fmt.Fprintln(os.Stderr, "no property configuration:", err)
		return 2
	}
	if err := json.Unmarshal(b, &cfg); err != nil {
		fmt.Fprintln(os.Stderr, "bad property configuration:", err)
		return 2
	}
	v, err := setup(*repo, filepath.Join(*verif, "spec"))
	if err != nil {
		// the tree does not build with the verif tag or a contract file does not parse: the check is broken, not the property
		fmt.Fprintln(os.Stderr, "govc: setup failed (check cannot run):", err)
		return 2
	}
	defer func() {
		if smtDir != "" && os.Getenv("GOVC_KEEP") == "" {
			os.RemoveAll(smtDir)
		}
	}()
	timeout := 60
	needTwo := false
	fnames := append([]string{}, cfg.Functions...)
	lemmas := append([]string{}, cfg.Lemmas...)
	if tier == "thorough" {
		timeout = 120
		needTwo = true
		fnames = append(fnames, cfg.Thorough.Functions...)
		lemmas = append(lemmas, cfg.Thorough.Lemmas...)
	}
	var obls []*Obligation
	var attach []string
	var units []*Unit
	underContract := []string{}
	for _, name := range fnames {
		fn := v.prog.byName[name]
		if fn == nil {
			attach = append(attach, fmt.Sprintf("%s#contract.attach: function not found in the tree", name))
			continue
		}
		if v.lib.Contracts[name] == nil {
			attach = append(attach, fmt.Sprintf("%s#contract.attach: no contract found for a function the property depends on", name))
		}
		u := v.verifyIsolated(fn)
		units = append(units, u)
		underContract = append(underContract, name)
		for _, e := range u.errs {
			attach = append(attach, fmt.Sprintf("%s#contract.attach: %s", name, e))
		}
		obls = append(obls, u.obls...)
		obls = append(obls, u.covers...)
	}
	// contracts naming functions that no longer exist
	for cn := range v.lib.Contracts {
		if strings.HasPrefix(cn, "iface:") {
			continue
		}
		if v.prog.byName[cn] == nil {
			for _, fn := range fnames {
				if fn == cn {
					attach = append(attach, fmt.Sprintf("%s#contract.attach: contract target missing", cn))
				}
			}
		}
	}
	// map value invariants are assumed at lookups: every assignment to a map of such a type, anywhere
	// in the loaded packages, must be made by a function checked under the same invariant
	for _, name := range underContract {
		c := v.lib.Contracts[name]
		if c == nil {
			continue
		}
		for _, mi := range c.MapInvs {
			for on, ofn := range v.prog.byName {
				writes := false
				for _, b := range ofn.Blocks {
					for _, in := range b.Instrs {
						if mu, ok := in.(*ssa.MapUpdate); ok && mapTypeString(mu.Map.Type()) == mi.Type {
							writes = true
						}
					}
				}
				if !writes {
					continue
				}
				okc := false
				if oc := v.lib.Contracts[on]; oc != nil {
					for _, omi := range oc.MapInvs {
						if omi.Type == mi.Type && omi.C.Src == mi.C.Src {
							okc = true
						}
					}
				}
				inList := false
				for _, fnm := range fnames {
					if fnm == on {
						inList = true
					}
				}
				if !okc || !inList {
					attach = append(attach, fmt.Sprintf("%s#contract.attach: mapinv %s is assumed but %s assigns to such a map without being checked under the same invariant", name, mi.Type, on))
				}
			}
		}
	}
	// caller-only postconditions justified by a lemma function are believed only if that lemma function
	// is verified in this very run, and it must assert the clause it is said to justify
	for ln := range v.lemmaDeps {
		inList := false
		for _, fnm := range fnames {
			if fnm == ln {
				inList = true
			}
		}
		if !inList {
			attach = append(attach, fmt.Sprintf("%s#contract.attach: a postcondition used by this check is justified by lemma function %s, which this check does not verify", ln, ln))
		}
	}
	for cn, c := range v.lib.Contracts {
		for _, ce := range c.CallerEnsures {
			if ce.By == "" || !v.lemmaDeps[ce.By] {
				continue
			}
			lc := v.lib.Contracts[ce.By]
			if lc == nil || !lc.Lemma {
				attach = append(attach, fmt.Sprintf("%s#contract.attach: %s is not a lemma function (named by an ensures-by clause of %s)", ce.By, ce.By, cn))
			}
		}
	}
	usedLemmas := map[string]bool{}
	for _, ln := range v.lib.LemmaOrd {
		for _, want := range lemmas {
			if strings.HasPrefix(ln, want) {
				usedLemmas[ln] = true
			}
		}
	}
	// lemmas consumed by the functions' proofs are part of the property's proof
	var addUses func(names []string)
	addUses = func(names []string) {
		for _, n := range names {
			if l := v.lib.Lemmas[n]; l != nil && !usedLemmas[n] {
				usedLemmas[n] = true
				addUses(l.Uses)
			}
		}
	}
	for _, u := range units {
		if u.contract != nil {
			addUses(u.contract.Uses)
		}
	}
	for ln := range usedLemmas {
		addUses(v.lib.Lemmas[ln].Uses)
	}
	var lemmaNames []string
	for ln := range usedLemmas {
		lemmaNames = append(lemmaNames, ln)
	}
	sort.Strings(lemmaNames)
	var axioms []string
	for _, ln := range lemmaNames {
		l := v.lib.Lemmas[ln]
		if l.Axiom {
			axioms = append(axioms, fmt.Sprintf("axiom %s (%s): %s", l.Name, l.Where, l.Src))
			continue
		}
		os, err := v.lemmaObligationsIsolated(l)
		if err != nil {
			attach = append(attach, fmt.Sprintf("lemma.%s#contract.attach: %v", ln, err))
			continue
		}
		obls = append(obls, os...)
	}
	results := v.dischargeAll(obls, timeout, needTwo, 6)

	findings, _ := loadFindings(filepath.Join(*verif, "known_findings.txt"))
	isBounded := func(name string) bool {
		for _, p := range cfg.Bounded {
			if strings.Contains(name, p) {
				return true
			}
		}
		return false
	}
	isExcluded := func(name string) string {
		for _, e := range cfg.Excluded {
			if strings.Contains(name, e.Match) {
				return e.Reason
			}
		}
		return ""
	}
	nExcluded := 0
	var recs []oblRecord
	nObl, nDis, nBounded, nBoundedOK, nCover, nCoverSat, nTrivial := 0, 0, 0, 0, 0, 0, 0
	byBackend := map[string]int{}
	var solverSum, solverMax float64
	type failure struct {
		r   *Result
		msg string
	}
	var fails []failure
	var known []string
	for _, r := range results {
		o := r.Obl
		rec := oblRecord{Name: o.Name, Kind: o.Kind, Fn: o.Fn, Pos: o.Pos, Clause: o.Desc, Status: r.Status, Backend: r.Backend, Second: r.Second, Time: r.Time, SMTSize: r.SMTSize}
		recs = append(recs, rec)
		solverSum += r.Time
		if r.Time > solverMax {
			solverMax = r.Time
		}
		if o.Cover {
			nCover++
			switch r.Status {
			case "proved":
				nCoverSat++ // for covers "proved" means satisfiable: reachable / non-vacuous
			case "failed":
				fails = append(fails, failure{r, "vacuity: the assumptions of " + o.Fn + " are contradictory (cover query unsat)"})
			}
			continue
		}
		if why := isExcluded(o.Name); why != "" {
			recs[len(recs)-1].Status = "excluded (" + r.Status + "): " + why
			nExcluded++
			continue
		}
		bounded := isBounded(o.Name)
		if bounded {
			nBounded++
		} else {
			nObl++
		}
		switch r.Status {
		case "proved", "trivial":
			if bounded {
				nBoundedOK++
			} else {
				nDis++
			}
			if r.Status == "trivial" {
				nTrivial++
			}
			byBackend[r.Backend]++
		default:
			fails = append(fails, failure{r, ""})
		}
	}
	// a failed obligation is assumed on the continuing path, which can make the
	// function's remaining assumptions contradictory: vacuity alarms of a function
	// that already has a failing obligation are consequences, not findings
	{
		failedFn := map[string]bool{}
		for _, f := range fails {
			if !f.r.Obl.Cover {
				failedFn[f.r.Obl.Fn] = true
			}
		}
		var keep []failure
		for _, f := range fails {
			if f.r.Obl.Cover && failedFn[f.r.Obl.Fn] {
				continue
			}
			keep = append(keep, f)
		}
		fails = keep
	}
	for _, a := range attach {
		nObl++
		fails = append(fails, failure{&Result{Obl: &Obligation{Name: strings.SplitN(a, ":", 2)[0], Kind: "contract.attach", Desc: a}, Status: "failed", Output: a}, a})
	}
	// known findings
	violations := 0
	os.MkdirAll(filepath.Join(*verif, "replays"), 0o755)
	var unlisted []failure
	for _, f := range fails {
		matched := false
		for _, kf := range findings {
			if kf.Kind == "finding" && kf.Property == id && kf.Obligation == f.r.Obl.Name {
				matched = true
				known = append(known, fmt.Sprintf("property=%s %s: %s", id, kf.Obligation, kf.Text))
				fmt.Printf("KNOWN-FINDING: property=%s obligation=%s %s\n", id, kf.Obligation, kf.Text)
			}
		}
		if !matched {
			unlisted = append(unlisted, f)
		}
	}
	// a known finding's obligation does not count against obligations==discharged
	nObl -= len(fails) - len(unlisted)
	for _, f := range unlisted {
		violations++
		o := f.r.Obl
		rp := filepath.Join(*verif, "replays", fmt.Sprintf("%s-%s.json", id, sanitize(o.Name)))
		replay := v.replay(f.r, *repo)
		rep := map[string]interface{}{
			"property": id, "obligation": o.Name, "kind": o.Kind, "function": o.Fn, "pos": o.Pos, "clause": o.Desc,
			"status": f.r.Status, "solver_output": f.r.Output, "model": f.r.Model, "note": f.msg,
			"replay": replay,
		}
		jb, _ := json.MarshalIndent(rep, "", " ")
		os.WriteFile(rp, jb, 0o644)
		suffix := ""
		if replay == nil || !replay.Reproduced {
			suffix = " no-failing-input-found"
		}
		fmt.Printf("VIOLATION property=%s replay=%s obligation=%s (%s)%s\n", id, rp, o.Name, f.r.Status, suffix)
	}

	// evidence
	assum := map[string]bool{}
	for _, u := range units {
		for a := range u.assumed {
			assum[a] = true
		}
		for n := range u.notes {
			assum["abstraction: "+n] = true
		}
	}
	for _, a := range cfg.Assumptions {
		assum[a] = true
	}
	for _, a := range axioms {
		assum[a] = true
	}
	for _, a := range cfg.Undecided {
		assum["UNDECIDED by this check: "+a] = true
	}
	assum["machine model: linux/amd64 (int is 64 bits); slices and strings no longer than 2^48 (A-mem); x/tools go/ssa translation trusted"] = true
	var assumptions []string
	for a := range assum {
		assumptions = append(assumptions, a)
	}
	sort.Strings(assumptions)
	var samples []oblRecord
	for i, r := range recs {
		if i%(len(recs)/6+1) == 0 && len(samples) < 8 {
			samples = append(samples, r)
		}
	}
	tb := append([]string{"x/tools go/ssa v0.29.0 (Go -> SSA)", "govc VC generator (this repository)", "z3 4.8.12, z3 5.1.0, cvc5 1.0.3"}, cfg.TrustedBase...)
	cov := map[string]interface{}{
		"obligations": nObl, "discharged": nDis,
		"checker_cmd":              fmt.Sprintf("bin/govc check %s %s", id, tier),
		"trusted_base":             tb,
		"functions_under_contract": underContract,
		"lemmas":                   lemmaNames,
		"by_backend":               byBackend,
		"discharged_by_simplifier": nTrivial,
		"solver_time_s":            map[string]float64{"sum": round2(solverSum), "max": round2(solverMax)},
		"bounded_obligations":      map[string]interface{}{"count": nBounded, "discharged": nBoundedOK, "which": cfg.Bounded},
		"vacuity_guards":           map[string]int{"cover_queries": nCover, "conclusively_satisfiable": nCoverSat},
		"known_findings":           known,
		"two_backend_agreement":    needTwo,
		"samples":                  samples,
		"all_obligations":          recs,
	}
	ev := map[string]interface{}{
		"property_id": id, "tier": tier, "seed": seed, "level": "proof", "coverage": cov,
		"assumptions": assumptions, "wall_s": round2(time.Since(t0).Seconds()), "violations": violations,
	}
	// evidence goes to /verif/evidence; runs against deliberately broken trees (tools/trymutant.sh) redirect it
	evDir := filepath.Join(*verif, "evidence")
	if d := os.Getenv("GOVC_EVIDENCE_DIR"); d != "" {
		evDir = d
	}
	os.MkdirAll(evDir, 0o755)
	jb, _ := json.MarshalIndent(ev, "", " ")
	os.WriteFile(filepath.Join(evDir, id+".json"), jb, 0o644)
	fmt.Printf("%s %s: %d obligations, %d discharged, %d bounded (%d ok), %d known findings, %d violations, %.1fs\n", id, tier, nObl, nDis, nBounded, nBoundedOK, len(known), violations, time.Since(t0).Seconds())
	if violations > 0 {
		return 1
	}
	if nObl == 0 {
		fmt.Fprintln(os.Stderr, "govc: no obligations generated (vacuous check)")
		return 2
	}
	return 0
}

func round2(f float64) float64 { return float64(int(f*100+0.5)) / 100 }
