// solve.go: discharge obligations with a portfolio of SMT solvers.
package main

import (
	"bytes"
	"context"
	"fmt"
	"os"
	"os/exec"
	"path/filepath"
	"strings"
	"sync"
	"time"
)

type Result struct {
	Obl     *Obligation
	Status  string // "proved", "failed", "unknown", "trivial"
	Backend string
	Time    float64
	Model   map[string]string
	Output  string
	SMTSize int
	Second  string // second backend that agreed (thorough)
}

type solverSpec struct {
	name string
	cmd  []string
}

func solvers(timeoutS int) []solverSpec {
	return []solverSpec{
		{"cvc5", []string{"sh", "-c", fmt.Sprintf("ulimit -v 4000000; exec cvc5 --lang=smt2 --tlimit=%d --produce-models \"$0\"", timeoutS*1000)}},
		{"z3-new", []string{"z3-new", "-smt2", fmt.Sprintf("-T:%d", timeoutS), "-memory:3000"}},
		{"z3", []string{"z3", "-smt2", fmt.Sprintf("-T:%d", timeoutS), "-memory:3000"}},
	}
}

var smtDir string

func scratchDir() string {
	if smtDir == "" {
		d, err := os.MkdirTemp("", "govc-smt-")
		if err != nil {
			panic(err)
		}
		smtDir = d
	}
	return smtDir
}

// buildQuery renders (hyps ∧ ¬goal) for an obligation.
func (v *Verifier) buildQuery(o *Obligation, models bool) (string, []*Term) {
	asserts := append([]*Term{}, o.Hyps...)
	if !o.Cover {
		// universally quantified parts of the goal are skolemised here, so that the
		// instantiation passes below see the ground terms of the counterexample
		sg := skolemizeGoal(o.Goal)
		asserts = append(asserts, Not(sg))
		// existential parts of the goal: their negations are universal facts of the query; stating them
		// separately (they are implied by the negated goal) lets the instantiation pass supply witnesses
		asserts = append(asserts, negatedExistentials(sg)...)
	}
	// instantiate used lemmas (two rounds: instances may enable further matches)
	var uses []string
	if o.Unit != nil && o.Unit.contract != nil {
		uses = append(uses, o.Unit.contract.Uses...)
	}
	uses = append(uses, o.UseLemmas...)
	for round := 0; round < 2 && len(uses) > 0; round++ {
		_, ax := v.lib.prelude(asserts, o.Opaque, o.Fuel)
		scan := append(append([]*Term{}, asserts...), ax...)
		seen := map[*Term]bool{}
		for _, a := range asserts {
			seen[a] = true
		}
		for _, ln := range uses {
			l := v.lib.Lemmas[ln]
			if l == nil {
				continue
			}
			for _, t := range v.instantiateLemma(l, scan) {
				t = skolemizeHyp(t)
				if !seen[t] {
					seen[t] = true
					asserts = append(asserts, t)
				}
			}
		}
	}
	_, axioms := v.lib.prelude(asserts, o.Opaque, o.Fuel)
	asserts = append(asserts, axioms...)
	if len(o.Expand) > 0 {
		for i, a := range asserts {
			asserts[i] = v.lib.expandApps(a, o.Expand)
		}
	}
	// arithmetic-aware instantiation of quantified facts at the indices the query accesses
	if !o.Cover {
		asserts = append(asserts, instantiateQuantifiers(asserts, o.Unit != nil && o.Unit.contract != nil && o.Unit.contract.AliasInst)...)
	}
	// theory lemmas bridging bit-vector and integer arithmetic (two rounds)
	for round := 0; round < 2; round++ {
		bf := bridgeFacts(asserts)
		if len(bf) == 0 {
			break
		}
		seen := map[*Term]bool{}
		for _, a := range asserts {
			seen[a] = true
		}
		n := 0
		for _, f := range bf {
			if !seen[f] {
				asserts = append(asserts, f)
				n++
			}
		}
		if n == 0 {
			break
		}
	}
	pre, _ := v.lib.preludeOnly(asserts, o.Opaque)
	var gv []*Term
	if models {
		seen := map[*Term]bool{}
		for _, in := range o.Inputs {
			for _, t := range flatten(in, nil) {
				if !seen[t] && t.Op == "var" {
					seen[t] = true
					gv = append(gv, t)
				}
			}
		}
	}
	sc := &Script{Prelude: []string{pre}, Asserts: asserts, GetVals: gv}
	text := sc.Render("ALL", models)
	lastAbs = ""
	if strings.Contains(text, "(bvmul ") || strings.Contains(text, "(bv2nat ") || strings.Contains(text, "int2bv ") {
		printAbstractMul = true
		absDecls = map[string]string{}
		pre2, _ := v.lib.preludeOnly(asserts, o.Opaque)
		sc2 := &Script{Prelude: []string{pre2}, Asserts: asserts}
		lastAbs = sc2.Render("ALL", false)
		printAbstractMul = false
	}
	return text, gv
}

// lastAbs: the multiplication-abstracted rendering of the query built last (set under the build lock).
var lastAbs string

func (lib *SpecLib) preludeOnly(terms []*Term, opaque map[string]bool) (string, []*Term) {
	needed := map[string]bool{}
	ord, _ := collect(terms)
	for _, x := range ord {
		if x.Op == "app" {
			if f := lib.bySMT(x.Name); f != nil {
				lib.need(f.Name, needed, opaque)
			}
		}
	}
	var sb strings.Builder
	for _, n := range lib.Order {
		if !needed[n] {
			continue
		}
		f := lib.Funs[n]
		var ss []string
		for _, p := range f.Params {
			for _, s := range specParamSorts(p) {
				ss = append(ss, s.String())
			}
		}
		if f.BodyTerm == nil || f.Rec || opaque[n] {
			fmt.Fprintf(&sb, "(declare-fun %s (%s) %s)\n", f.SMTName, strings.Join(ss, " "), f.RetSort)
			continue
		}
		var ps []string
		for _, v := range f.ParamVars {
			ps = append(ps, fmt.Sprintf("(%s %s)", v.Name, v.S))
		}
		fmt.Fprintf(&sb, "(define-fun %s (%s) %s %s)\n", f.SMTName, strings.Join(ps, " "), f.RetSort, f.BodyTerm.String())
	}
	return sb.String(), nil
}

// lemmaTerm: the universally quantified statement of a lemma.
func (lib *SpecLib) lemmaTerm(l *Lemma) (*Term, error) {
	env, vars := lib.paramEnv(l.Params, "", true)
	t, err := env.evalBool(l.Stmt)
	if err != nil {
		return nil, err
	}
	return Forall(vars, t), nil
}

func runSolver(ctx context.Context, s solverSpec, file string, timeoutS int) (status string, out string, dur float64) {
	t0 := time.Now()
	cctx, cancel := context.WithTimeout(ctx, time.Duration(timeoutS+2)*time.Second)
	defer cancel()
	cmd := exec.CommandContext(cctx, s.cmd[0], append(s.cmd[1:], file)...)
	var buf bytes.Buffer
	cmd.Stdout = &buf
	cmd.Stderr = &buf
	cmd.Run()
	dur = time.Since(t0).Seconds()
	out = buf.String()
	// the verdict is the first line that is not a solver warning (z3 warns about patterns it will not use)
	first := ""
	for _, ln := range strings.Split(out, "\n") {
		ln = strings.TrimSpace(ln)
		if ln == "" || strings.HasPrefix(ln, "WARNING") {
			continue
		}
		first = ln
		break
	}
	switch first {
	case "sat", "unsat", "unknown":
		status = first
	default:
		if cctx.Err() != nil {
			status = "timeout"
		} else if strings.Contains(out, "timeout") {
			status = "timeout"
		} else {
			status = "error"
		}
	}
	return
}

func firstLines(s string, n int) string {
	ls := strings.Split(strings.TrimSpace(s), "\n")
	if len(ls) > n {
		ls = ls[:n]
	}
	return strings.Join(ls, " | ")
}

func sanitize(s string) string {
	var sb strings.Builder
	for _, r := range s {
		if (r >= 'a' && r <= 'z') || (r >= 'A' && r <= 'Z') || (r >= '0' && r <= '9') || r == '.' || r == '-' {
			sb.WriteRune(r)
		} else {
			sb.WriteByte('_')
		}
	}
	out := sb.String()
	if len(out) > 150 {
		out = out[:150]
	}
	return out
}

// parseModel extracts (get-value) pairs: name -> value text.
func parseModel(out string, gv []*Term) map[string]string {
	m := map[string]string{}
	i := strings.Index(out, "((")
	if i < 0 {
		return m
	}
	s := out[i:]
	for _, g := range gv {
		key := "(" + g.Name + " "
		j := strings.Index(s, key)
		if j < 0 {
			continue
		}
		rest := s[j+len(key):]
		// value extends to matching paren
		depth := 0
		end := 0
		for k, c := range rest {
			if c == '(' {
				depth++
			}
			if c == ')' {
				if depth == 0 {
					end = k
					break
				}
				depth--
			}
		}
		m[g.Name] = strings.TrimSpace(rest[:end])
	}
	return m
}

// dischargeAll runs obligations in parallel.
func (v *Verifier) dischargeAll(obls []*Obligation, timeoutS int, needTwo bool, workers int) []*Result {
	res := make([]*Result, len(obls))
	// building queries touches shared term tables: do it under a lock
	var mu sync.Mutex
	sem := make(chan struct{}, workers)
	var wg sync.WaitGroup
	for i, o := range obls {
		wg.Add(1)
		sem <- struct{}{}
		go func(i int, o *Obligation) {
			defer wg.Done()
			defer func() { <-sem }()
			res[i] = v.dischargeLocked(o, timeoutS, needTwo, &mu)
		}(i, o)
	}
	wg.Wait()
	return res
}

func (v *Verifier) dischargeLocked(o *Obligation, timeoutS int, needTwo bool, mu *sync.Mutex) *Result {
	if o.Trivial {
		return &Result{Obl: o, Status: "trivial", Backend: "simplifier"}
	}
	if o.built {
		return v.solveText(o, o.q, o.qAbs, o.gv, timeoutS, needTwo)
	}
	mu.Lock()
	q, gv := v.buildQuery(o, true)
	abs := lastAbs
	mu.Unlock()
	return v.solveText(o, q, abs, gv, timeoutS, needTwo)
}

func (v *Verifier) solveText(o *Obligation, q string, qAbs string, gv []*Term, timeoutS int, needTwo bool) *Result {
	if o.Cover {
		// vacuity guards are best-effort: only a conclusive `unsat` is an alarm
		timeoutS = 3
		needTwo = false
	}
	file := filepath.Join(scratchDir(), sanitize(o.Name)+fmt.Sprintf("-%d.smt2", time.Now().UnixNano()%1000000))
	os.WriteFile(file, []byte(q), 0o644)
	if os.Getenv("GOVC_KEEP") == "" {
		defer os.Remove(file)
	}
	res := &Result{Obl: o, SMTSize: len(q)}
	ctx, cancel := context.WithCancel(context.Background())
	defer cancel()
	type ans struct {
		s      solverSpec
		status string
		out    string
		dur    float64
	}
	ss := solvers(timeoutS)
	nproc := len(ss)
	if qAbs != "" && !o.Cover {
		nproc += 2
	}
	ch := make(chan ans, nproc)
	for _, s := range ss {
		go func(s solverSpec) {
			st, out, d := runSolver(ctx, s, file, timeoutS)
			ch <- ans{s, st, out, d}
		}(s)
	}
	if qAbs != "" && !o.Cover {
		// extra portfolio members on the weakened query (multiplication uninterpreted): only `unsat` counts
		afile := strings.TrimSuffix(file, ".smt2") + "-absmul.smt2"
		os.WriteFile(afile, []byte(qAbs), 0o644)
		if os.Getenv("GOVC_KEEP") == "" {
			defer os.Remove(afile)
		}
		for _, s := range []solverSpec{ss[0], ss[1]} {
			s.name += "+abs"
			go func(s solverSpec) {
				st, out, d := runSolver(ctx, s, afile, timeoutS)
				if st == "sat" || st == "unknown" {
					st = "inconclusive"
				}
				ch <- ans{s, st, out, d}
			}(s)
		}
	}
	var outs []string
	okBy := []string{}
	want, bad := "unsat", "sat"
	if o.Cover {
		want, bad = "sat", "unsat"
	}
	for i := 0; i < nproc; i++ {
		a := <-ch
		outs = append(outs, fmt.Sprintf("[%s %s %.2fs] %s", a.s.name, a.status, a.dur, firstLines(a.out, 2)))
		if a.status == want {
			okBy = append(okBy, a.s.name)
			if res.Backend == "" {
				res.Backend = a.s.name
				res.Time = a.dur
			}
			if !needTwo || len(okBy) >= 2 {
				res.Status = "proved"
				if len(okBy) >= 2 {
					res.Second = okBy[1]
				}
				res.Output = strings.Join(outs, "\n")
				return res
			}
			continue
		}
		if a.status == bad {
			if len(okBy) > 0 {
				outs = append(outs, "SOLVER DISAGREEMENT")
			}
			res.Status = "failed"
			res.Backend = a.s.name
			res.Time = a.dur
			res.Model = parseModel(a.out, gv)
			res.Output = strings.Join(outs, "\n")
			return res
		}
	}
	res.Output = strings.Join(outs, "\n")
	if len(okBy) > 0 {
		res.Status = "proved"
		return res
	}
	res.Status = "unknown"
	return res
}

// skolemizeGoal: replace universal quantifiers in positive positions of a goal
// by fresh constants (proving G[sk] for arbitrary sk proves G).
func skolemizeGoal(g *Term) *Term {
	switch g.Op {
	case "=>":
		return Implies(g.Args[0], skolemizeGoal(g.Args[1]))
	case "and":
		xs := make([]*Term, len(g.Args))
		for i, a := range g.Args {
			xs[i] = skolemizeGoal(a)
		}
		return And(xs...)
	case "or":
		xs := make([]*Term, len(g.Args))
		for i, a := range g.Args {
			xs[i] = skolemizeGoal(a)
		}
		return Or(xs...)
	case "forall":
		if g.hasB {
			return g
		}
		m := map[*Term]*Term{}
		for _, b := range g.Bound {
			m[b] = Fresh("sk!"+strings.TrimPrefix(b.Name, "b!"), b.S)
		}
		return skolemizeGoal(Subst(g.Args[0], m))
	}
	return g
}

// negatedExistentials: universal facts implied by the negation of goal g.
func negatedExistentials(g *Term) []*Term {
	switch g.Op {
	case "=>":
		return negatedExistentials(g.Args[1])
	case "or":
		var out []*Term
		for _, a := range g.Args {
			out = append(out, negatedExistentials(a)...)
		}
		return out
	case "exists":
		if g.hasB {
			return nil
		}
		return []*Term{Forall(g.Bound, Not(g.Args[0]))}
	}
	return nil
}

// skolemizeHyp: a lemma instance (forall k. H(k)) ==> C is equivalent to (exists k. !H(k)) || C; naming the
// witness by a fresh constant gives H(sk) ==> C, which is equisatisfiable and lets the instantiation passes
// see ground terms for the hypothesis.
func skolemizeHyp(t *Term) *Term {
	if t.Op != "=>" || t.hasB {
		return t
	}
	sk := func(h *Term) *Term {
		if h.Op != "forall" || h.hasB {
			return h
		}
		m := map[*Term]*Term{}
		for _, b := range h.Bound {
			m[b] = Fresh("skh!"+strings.TrimPrefix(b.Name, "b!"), b.S)
		}
		return Subst(h.Args[0], m)
	}
	h := t.Args[0]
	if h.Op == "and" {
		xs := make([]*Term, len(h.Args))
		for i, a := range h.Args {
			xs[i] = sk(a)
		}
		return Implies(And(xs...), t.Args[1])
	}
	return Implies(sk(h), t.Args[1])
}
