// lemma.go: proving spec-library lemmas and instantiating them in obligations.
package main

import (
	"fmt"
	"strings"
)

// lemma statements may carry extra directives, parsed from the `by` line:
//   by smt
//   by induction n [generalize a, b]
// and `trigger f(x, y), g(y)` lines give the E-matching patterns used when the
// lemma is consumed (instantiation is done by govc itself over the ground
// terms of an obligation, so it is deterministic and solver-independent).

type trigPat struct {
	fn   *SpecFun
	args []Expr
}

func (lib *SpecLib) parseTriggers(l *Lemma) ([][]trigPat, error) {
	var out [][]trigPat
	for _, src := range l.Triggers {
		e, err := parseExpr("tuple(" + src + ")")
		if err != nil {
			return nil, err
		}
		var ps []trigPat
		for _, a := range e.(*ECall).Args {
			c, ok := a.(*ECall)
			if !ok {
				return nil, fmt.Errorf("trigger must be spec function applications")
			}
			f := lib.Funs[c.Fun]
			if f == nil {
				return nil, fmt.Errorf("trigger: unknown function %s", c.Fun)
			}
			ps = append(ps, trigPat{f, c.Args})
		}
		out = append(out, ps)
	}
	return out, nil
}

// lemmaObligations: what must be discharged to accept lemma l.
func (v *Verifier) lemmaObligations(l *Lemma) ([]*Obligation, error) {
	if l.Axiom {
		return nil, nil
	}
	lib := v.lib
	env, vars := lib.paramEnv(l.Params, "L!"+l.Name+"!", false)
	stmt, err := env.evalBool(l.Stmt)
	if err != nil {
		return nil, fmt.Errorf("%s: lemma %s: %v", l.Where, l.Name, err)
	}
	opaque := map[string]bool{}
	for _, o := range l.Opaque {
		opaque[o] = true
	}
	fuel := map[string]int{}
	for _, r := range l.Reveal {
		fuel[r]++
	}
	mk := func(suffix string, hyps []*Term, goal *Term) *Obligation {
		return &Obligation{Name: "lemma." + l.Name + suffix, Kind: "lemma", Fn: "lemma " + l.Name, Hyps: hyps, Goal: goal, Pos: l.Where, Desc: l.Src, Opaque: opaque, Fuel: fuel, UseLemmas: l.Uses, Expand: expandSet(l.Expand)}
	}
	by := strings.Fields(l.By)
	if len(by) == 0 || by[0] == "smt" {
		return []*Obligation{mk("", nil, stmt)}, nil
	}
	if by[0] == "induction" && len(by) >= 2 {
		nv := env.vars[by[1]]
		if nv == nil || nv.K != CInt {
			return nil, fmt.Errorf("%s: induction variable %s must be an int parameter", l.Where, by[1])
		}
		n := nv.T
		// IH: statement at n-1 (other parameters fixed, or generalised)
		ih := Subst(stmt, map[*Term]*Term{n: Sub(n, IntLit(1))})
		if len(by) > 3 && by[2] == "generalize" {
			m := map[*Term]*Term{}
			var bs []*Term
			for _, g := range by[3:] {
				g = strings.Trim(g, ",")
				for _, pv := range vars {
					if pv.Name == mangle("L!"+l.Name+"!"+g) || strings.HasPrefix(pv.Name, mangle("L!"+l.Name+"!"+g+".")) {
						b := BoundVar(g, pv.S)
						m[pv] = b
						bs = append(bs, b)
					}
				}
			}
			ih = Forall(bs, Subst(ih, m))
		}
		base := mk(".base", []*Term{Le(n, IntLit(0))}, stmt)
		step := mk(".step", []*Term{Gt(n, IntLit(0)), ih}, stmt)
		return []*Obligation{base, step}, nil
	}
	if by[0] == "bvinduction" && len(by) >= 2 {
		nv := env.vars[by[1]]
		if nv == nil || nv.K != CBV {
			return nil, fmt.Errorf("%s: bvinduction variable %s must be an unsigned bit-vector parameter", l.Where, by[1])
		}
		n := nv.T
		w := n.S.W
		ih := Subst(stmt, map[*Term]*Term{n: BVOp("bvsub", n, BVLit(1, w))})
		base := mk(".base", []*Term{Eq(n, BVLit(0, w))}, stmt)
		step := mk(".step", []*Term{Not(Eq(n, BVLit(0, w))), ih}, stmt)
		return []*Obligation{base, step}, nil
	}
	return nil, fmt.Errorf("%s: unknown proof method %q", l.Where, l.By)
}

// instantiate lemma l over the ground terms of `terms`.
func (v *Verifier) instantiateLemma(l *Lemma, terms []*Term) []*Term {
	lib := v.lib
	trigs, err := lib.parseTriggers(l)
	if err != nil || len(trigs) == 0 {
		if t, err := lib.lemmaTerm(l); err == nil {
			return []*Term{t}
		}
		return nil
	}
	env, vars := lib.paramEnv(l.Params, "", true)
	stmt, err := env.evalBool(l.Stmt)
	if err != nil {
		return nil
	}
	// ground applications by function
	apps := map[string][]*Term{}
	ord, _ := collect(terms)
	for _, x := range ord {
		if x.Op == "app" && !x.hasB {
			apps[x.Name] = append(apps[x.Name], x)
		}
	}
	var out []*Term
	seen := map[string]bool{}
	for _, pats := range trigs {
		var rec func(i int, bind map[*Term]*Term)
		rec = func(i int, bind map[*Term]*Term) {
			if len(out) > 200 {
				return
			}
			if i == len(pats) {
				// all lemma variables must be bound
				for _, pv := range vars {
					if _, ok := bind[pv]; !ok {
						return
					}
				}
				key := ""
				for _, pv := range vars {
					key += fmt.Sprintf("%d,", bind[pv].id)
				}
				if seen[key] {
					return
				}
				seen[key] = true
				out = append(out, Subst(stmt, bind))
				return
			}
			p := pats[i]
			for _, app := range apps[p.fn.SMTName] {
				nb := map[*Term]*Term{}
				for k, v := range bind {
					nb[k] = v
				}
				if matchPattern(env, p, app, nb) {
					rec(i+1, nb)
				}
			}
		}
		rec(0, map[*Term]*Term{})
	}
	return out
}

// matchPattern: pattern arguments are lemma parameters (possibly sequences) or literals.
func matchPattern(env *Env, p trigPat, app *Term, bind map[*Term]*Term) bool {
	k := 0
	for i, a := range p.args {
		n := len(specParamSorts(p.fn.Params[i]))
		actual := app.Args[k : k+n]
		k += n
		switch x := a.(type) {
		case *EIdent:
			if x.Name == "_" {
				continue
			}
			cv := env.vars[x.Name]
			if cv == nil {
				return false
			}
			var pvs []*Term
			if cv.K == CSeq {
				pvs = []*Term{cv.Row, cv.Off}
			} else {
				pvs = []*Term{cv.T}
			}
			if len(pvs) != len(actual) {
				return false
			}
			for j, pv := range pvs {
				if pv.S != actual[j].S {
					return false
				}
				if b, ok := bind[pv]; ok {
					if b != actual[j] {
						return false
					}
				} else {
					bind[pv] = actual[j]
				}
			}
		case *EInt:
			if len(actual) != 1 {
				return false
			}
			var lit *Term
			if actual[0].S == IntS {
				lit = IntBig(x.V)
			} else if actual[0].S.K == SBV {
				lit = BVBig(x.V, actual[0].S.W)
			}
			if lit != actual[0] {
				return false
			}
		default:
			return false
		}
	}
	return true
}

func expandSet(ns []string) map[string]bool {
	if len(ns) == 0 {
		return nil
	}
	m := map[string]bool{}
	for _, n := range ns {
		m[n] = true
	}
	return m
}
