// replay.go: turn a failed obligation into a concrete input and run it on the real code.
package main

import (
	"encoding/json"
	"fmt"
	"go/types"
	"math/big"
	"os"
	"os/exec"
	"path/filepath"
	"strings"
	"time"

)

type ReplayOutcome struct {
	Attempted  bool              `json:"attempted"`
	Reproduced bool              `json:"reproduced"`
	Inputs     map[string]string `json:"inputs,omitempty"`
	Call       string            `json:"call,omitempty"`
	TestSource string            `json:"test_source,omitempty"`
	Output     string            `json:"output,omitempty"`
	Reason     string            `json:"reason,omitempty"`
}

var panicKinds = map[string]bool{"index": true, "slice.bounds": true, "nil.deref": true, "div0": true, "typeassert": true,
	"make.neg": true, "nil.map": true, "panic.reach": true, "shift.neg": true, "panic.callee": true}

const replayMaxLen = 12

func simpleParam(t types.Type) string {
	switch u := t.Underlying().(type) {
	case *types.Basic:
		if isStringT(t) {
			return "string"
		}
		if u.Info()&types.IsInteger != 0 {
			return "int"
		}
		if u.Kind() == types.Bool {
			return "bool"
		}
	case *types.Slice:
		if scalarKind(u.Elem()) == "bv8" {
			return "bytes"
		}
	}
	return ""
}

func (v *Verifier) replay(r *Result, repo string) *ReplayOutcome {
	o := r.Obl
	out := &ReplayOutcome{}
	if o.Unit == nil || o.Cover {
		out.Reason = "obligation is not attached to a function body"
		return out
	}
	if !panicKinds[o.Kind] {
		out.Reason = "functional obligation: replay of non-panic violations is not implemented for this kind; the failed obligation and solver output are attached"
		return out
	}
	fn := o.Unit.fn
	if fn.Signature.Recv() != nil || fn.Parent() != nil {
		out.Reason = "method or closure: no input constructor"
		return out
	}
	for _, p := range fn.Params {
		if simpleParam(p.Type()) == "" {
			out.Reason = fmt.Sprintf("parameter %s of type %s: no input constructor", p.Name(), p.Type())
			return out
		}
	}
	out.Attempted = true
	// bounded concretisation: re-generate the function's obligations with every
	// loop unrolled (no invariants, no havoc), sequence lengths bounded, spec
	// recursion fully unfolded; any model is then an input of the real code.
	base := o.Name
	if i := strings.Index(base, "@"); i >= 0 && !strings.Contains(base, "@ret") {
		base = base[:i]
	}
	// enumerate length vectors of the sequence parameters (sum of lengths growing)
	var seqIdx []int
	for i, p := range fn.Params {
		if k := simpleParam(p.Type()); k == "string" || k == "bytes" {
			seqIdx = append(seqIdx, i)
		}
	}
	var lenVecs []map[int]int64
	switch len(seqIdx) {
	case 0:
		lenVecs = []map[int]int64{{}}
	case 1:
		for n := int64(0); n <= replayMaxLen; n++ {
			lenVecs = append(lenVecs, map[int]int64{seqIdx[0]: n})
		}
	default:
		for total := int64(0); total <= replayMaxLen && len(lenVecs) < 40; total++ {
			for a := int64(0); a <= total; a++ {
				m := map[int]int64{seqIdx[0]: a, seqIdx[1]: total - a}
				for _, k := range seqIdx[2:] {
					m[k] = 1
				}
				lenVecs = append(lenVecs, m)
			}
		}
	}
	fuel := map[string]int{}
	for n, f := range v.lib.Funs {
		if f.Rec {
			fuel[n] = 2*replayMaxLen + 6
		}
	}
	type job struct {
		text string
		gv   []*Term
		lens map[int]int64
	}
	var jobs []job
	for _, lv := range lenVecs {
		bu := v.verifyFunctionFixed(fn, replayMaxLen+2, lv)
		var gv []*Term
		st0 := &State{H: map[string]*Term{}}
		for i, p := range fn.Params {
			pv := bu.inputs[i]
			switch simpleParam(p.Type()) {
			case "string", "bytes":
				kind := "bv8"
				if pv.K == VString {
					kind = "str8"
				}
				for k := int64(0); k < lv[i]; k++ {
					gv = append(gv, st0.loadCell(kind, pv.Ref, Add(pv.Off, IntLit(k))))
				}
			default:
				gv = append(gv, pv.S)
			}
		}
		for _, bo := range bu.obls {
			bn := bo.Name
			if i := strings.LastIndex(bn, "@"); i >= 0 && !strings.HasPrefix(bn[i:], "@ret") {
				bn = bn[:i]
			}
			if bn != base || bo.Trivial {
				continue
			}
			co := *bo
			co.Opaque = map[string]bool{}
			co.Fuel = fuel
			q, _ := v.buildQuery(&co, true)
			if i := strings.LastIndex(q, "(get-value"); i >= 0 {
				q = q[:i]
			}
			var sb strings.Builder
			sb.WriteString(q)
			if len(gv) > 0 {
				sb.WriteString("(get-value (")
				for _, g := range gv {
					sb.WriteString(g.String())
					sb.WriteByte(' ')
				}
				sb.WriteString("))\n")
			}
			jobs = append(jobs, job{sb.String(), gv, lv})
		}
	}
	if len(jobs) == 0 {
		out.Reason = "bounded re-execution produced no matching obligation instance"
		return out
	}
	if len(jobs) > 64 {
		jobs = jobs[:64]
	}
	// run the bounded queries in parallel; first model wins
	type ans struct {
		j    int
		vals []string
	}
	ch := make(chan ans, len(jobs))
	sem := make(chan struct{}, 12)
	for ji, j := range jobs {
		go func(ji int, j job) {
			sem <- struct{}{}
			defer func() { <-sem }()
			file := filepath.Join(scratchDir(), fmt.Sprintf("replay-%s-%d.smt2", sanitize(o.Name), ji))
			os.WriteFile(file, []byte(j.text), 0o644)
			if os.Getenv("GOVC_KEEP") == "" {
				defer os.Remove(file)
			}
			for _, s := range []solverSpec{solvers(15)[1]} {
				cmd := exec.Command(s.cmd[0], append(s.cmd[1:], file)...)
				b, _ := cmd.CombinedOutput()
				txt := string(b)
				if strings.HasPrefix(strings.TrimSpace(txt), "sat") {
					if len(j.gv) == 0 {
						ch <- ans{ji, []string{}}
						return
					}
					vs := parseGetValues(txt, len(j.gv))
					if len(vs) == len(j.gv) {
						ch <- ans{ji, vs}
						return
					}
				}
			}
			ch <- ans{ji, nil}
		}(ji, j)
	}
	var vals []string
	var lens map[int]int64
	found := false
	for range jobs {
		a := <-ch
		if a.vals != nil && !found {
			found = true
			vals = a.vals
			lens = jobs[a.j].lens
		}
	}
	if !found {
		out.Reason = fmt.Sprintf("bounded concretisation (sequence lengths <= %d, loops unrolled) found no model", replayMaxLen)
		return out
	}
	// build arguments
	idx := 0
	out.Inputs = map[string]string{}
	var args []string
	for pi, p := range fn.Params {
		switch simpleParam(p.Type()) {
		case "string", "bytes":
			n := int(lens[pi])
			var bs []byte
			for k := 0; k < n; k++ {
				bs = append(bs, byte(smtInt(vals[idx]).Uint64()))
				idx++
			}
			if simpleParam(p.Type()) == "bytes" {
				lit := "[]byte{"
				for _, b := range bs {
					lit += fmt.Sprintf("0x%02x,", b)
				}
				lit += "}"
				args = append(args, lit)
				out.Inputs[p.Name()] = fmt.Sprintf("%x", bs)
			} else {
				args = append(args, fmt.Sprintf("%q", string(bs)))
				out.Inputs[p.Name()] = fmt.Sprintf("%q", string(bs))
			}
		case "int":
			x := smtInt(vals[idx])
			idx++
			if isSignedT(p.Type()) && x.BitLen() >= bvWidth(p.Type()) && vals[idx-1][0] == '#' {
				x = toSigned(x, bvWidth(p.Type()))
			}
			args = append(args, fmt.Sprintf("%s(%s)", types.TypeString(p.Type(), func(*types.Package) string { return "" }), x.String()))
			out.Inputs[p.Name()] = x.String()
		case "bool":
			args = append(args, vals[idx])
			out.Inputs[p.Name()] = vals[idx]
			idx++
		}
	}
	out.Call = fmt.Sprintf("%s(%s)", fn.Name(), strings.Join(args, ", "))
	pkgPath := fn.Pkg.Pkg.Path()
	dir := strings.TrimPrefix(strings.TrimPrefix(pkgPath, repoMod), "/")
	src := fmt.Sprintf(`package %s

import (
	"fmt"
	"testing"
)

func TestGovcReplay(t *testing.T) {
	defer func() {
		if r := recover(); r != nil {
			fmt.Printf("GOVC-PANIC: %%v\n", r)
		}
	}()
	%s
	fmt.Println("GOVC-RETURNED")
}
`, fn.Pkg.Pkg.Name(), out.Call)
	out.TestSource = src
	tmp, err := os.MkdirTemp("", "govc-replay-")
	if err != nil {
		out.Reason = err.Error()
		return out
	}
	defer os.RemoveAll(tmp)
	tf := filepath.Join(tmp, "zz_govc_replay_test.go")
	os.WriteFile(tf, []byte(src), 0o644)
	ov := map[string]map[string]string{"Replace": {filepath.Join(repo, dir, "zz_govc_replay_test.go"): tf}}
	ob, _ := json.Marshal(ov)
	ovf := filepath.Join(tmp, "overlay.json")
	os.WriteFile(ovf, ob, 0o644)
	pkgArg := "./" + dir
	if dir == "" {
		pkgArg = "."
	}
	cmd := exec.Command("go", "test", "-overlay", ovf, "-vet=off", "-count=1", "-timeout", "60s", "-v", "-run", "^TestGovcReplay$", pkgArg)
	cmd.Dir = repo
	cmd.Env = append(os.Environ(), "GOFLAGS=-mod=mod", "GOPROXY=off", "GOSUMDB=off", "GOTOOLCHAIN=local")
	done := make(chan struct{})
	var b []byte
	go func() { b, _ = cmd.CombinedOutput(); close(done) }()
	select {
	case <-done:
	case <-time.After(120 * time.Second):
		cmd.Process.Kill()
		<-done
	}
	out.Output = firstLines(string(b), 12)
	if strings.Contains(string(b), "GOVC-PANIC") {
		out.Reproduced = true
	} else {
		out.Reason = "the concretised input did not make the real function panic"
	}
	return out
}

// parseGetValues splits the reply "((t v) (t v) ...)" into n value strings (in order).
func parseGetValues(txt string, n int) []string {
	i := strings.Index(txt, "((")
	if i < 0 {
		return nil
	}
	s := txt[i+1:]
	var vals []string
	depth := 0
	start := -1
	for k := 0; k < len(s); k++ {
		switch s[k] {
		case '(':
			if depth == 0 {
				start = k
			}
			depth++
		case ')':
			depth--
			if depth == 0 && start >= 0 {
				pair := s[start+1 : k]
				vals = append(vals, lastSexp(pair))
				start = -1
			}
			if depth < 0 {
				return vals
			}
		}
	}
	return vals
}

// lastSexp returns the last top-level s-expression of "term value".
func lastSexp(p string) string {
	p = strings.TrimSpace(p)
	if strings.HasSuffix(p, ")") {
		depth := 0
		for k := len(p) - 1; k >= 0; k-- {
			switch p[k] {
			case ')':
				depth++
			case '(':
				depth--
				if depth == 0 {
					return p[k:]
				}
			}
		}
	}
	if i := strings.LastIndexAny(p, " \t\n"); i >= 0 {
		return p[i+1:]
	}
	return p
}

func smtInt(s string) *big.Int {
	s = strings.TrimSpace(s)
	switch {
	case strings.HasPrefix(s, "#x"):
		x, _ := new(big.Int).SetString(s[2:], 16)
		return x
	case strings.HasPrefix(s, "#b"):
		x, _ := new(big.Int).SetString(s[2:], 2)
		return x
	case strings.HasPrefix(s, "(-"):
		x, _ := new(big.Int).SetString(strings.TrimSpace(strings.Trim(s[2:], "() ")), 10)
		if x == nil {
			return big.NewInt(0)
		}
		return x.Neg(x)
	case strings.HasPrefix(s, "(_ bv"):
		f := strings.Fields(s[5:])
		x, _ := new(big.Int).SetString(f[0], 10)
		return x
	}
	x, ok := new(big.Int).SetString(s, 10)
	if !ok {
		return big.NewInt(0)
	}
	return x
}
