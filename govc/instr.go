// instr.go: semantics of individual SSA instructions.
package main

import (
	"fmt"
	"go/ast"
	"go/token"
	"go/types"
	"math"
	"math/big"
	"strings"

	"golang.org/x/tools/go/ssa"
)

func mathFloat64bits(f float64) uint64 { return math.Float64bits(f) }

func exprName(e ast.Expr) string {
	if id, ok := e.(*ast.Ident); ok {
		return id.Name
	}
	return ""
}

func (fr *Frame) exec(in ssa.Instruction) {
	switch x := in.(type) {
	case *ssa.DebugRef:
	case *ssa.Phi:
	case *ssa.Alloc:
		fr.set(x, fr.alloc(x.Type().(*types.Pointer).Elem(), x.Type()))
	case *ssa.BinOp:
		fr.set(x, fr.binop(x))
	case *ssa.UnOp:
		fr.unop(x)
	case *ssa.Convert:
		fr.set(x, fr.convert(x, fr.get(x.X), x.X.Type(), x.Type()))
	case *ssa.ChangeType:
		v := *fr.get(x.X)
		v.T = x.Type()
		fr.set(x, &v)
	case *ssa.FieldAddr:
		p := fr.get(x.X)
		fr.nilCheck(x, p)
		nt := x.X.Type().Underlying().(*types.Pointer).Elem()
		st := nt.Underlying().(*types.Struct)
		fr.guardCheck(x, p, st)
		fr.set(x, &Val{K: VPtr, T: x.Type(), Ref: p.Ref, Off: Add(p.Off, IntLit(fieldOffset(st, x.Field))), Kinds: fieldKinds(nt, st, x.Field)})
	case *ssa.Field:
		s := fr.get(x.X)
		fr.set(x, s.El[x.Field])
	case *ssa.IndexAddr:
		fr.indexAddr(x)
	case *ssa.Index:
		fr.indexVal(x)
	case *ssa.Slice:
		fr.slice(x)
	case *ssa.Store:
		p := fr.get(x.Addr)
		fr.nilCheck(x, p)
		t := x.Addr.Type().Underlying().(*types.Pointer).Elem()
		fr.writeKinds = p.Kinds
		if fr.writeKinds == nil {
			fr.writeKinds = cellKinds(t)
		}
		fr.checkWrite(x, p.Ref, p.Off, IntLit(sizeOf(t)))
		fr.writeKinds = nil
		fr.st.storeKinds(t, p.Kinds, p.Ref, p.Off, canonVal(fr.get(x.Val)))
	case *ssa.MakeSlice:
		fr.makeSlice(x)
	case *ssa.MakeInterface:
		v := canonVal(fr.get(x.X))
		box := fr.allocRaw()
		fr.st.store(x.X.Type(), box, IntLit(0), v)
		fr.set(x, &Val{K: VIface, T: x.Type(), S: IntLit(fr.u.v.typeTag(x.X.Type())), Ref: box})
	case *ssa.ChangeInterface:
		v := *fr.get(x.X)
		v.T = x.Type()
		fr.set(x, &v)
	case *ssa.TypeAssert:
		fr.typeAssert(x)
	case *ssa.Extract:
		fr.set(x, fr.get(x.Tuple).El[x.Index])
	case *ssa.Call:
		fr.call(x)
	case *ssa.MakeClosure:
		var bs []*Val
		for _, b := range x.Bindings {
			bs = append(bs, fr.get(b))
		}
		fr.set(x, &Val{K: VFunc, T: x.Type(), S: IntLit(fr.u.v.typeTag(types.NewPointer(x.Fn.Type())) + 1000), Fn: &closureInfo{fn: x.Fn.(*ssa.Function), bindings: bs}})
	case *ssa.MakeMap:
		if x.Reserve != nil {
			fr.allocBound(x, fr.intOf(x.Reserve), "map size hint")
		}
		r := fr.allocRaw()
		fr.st.storeCell("int", r, IntLit(0), IntLit(0)) // ghost: number of entries
		fr.set(x, &Val{K: VMap, T: x.Type(), S: r})
	case *ssa.MapUpdate:
		m := fr.get(x.Map)
		fr.oblig(x, "nil.map", Not(Eq(m.S, IntLit(0))), "assignment to entry in nil map")
		// abstract map: contents are not tracked; size changes arbitrarily (non-negative)
		n := Fresh("maplen", IntS)
		fr.assume(Le(IntLit(0), n))
		fr.st.storeCell("int", m.S, IntLit(0), n)
		fr.mapInvCheck(x, x.Map.Type(), fr.get(x.Value))
		fr.u.note("map contents are abstracted (lookups return unconstrained values)")
		// trace: map assignments executed so far are counted like calls of a pseudo-callee ($calls_mapupdate)
		if fr.parent == nil && fr.reach != False {
			id := IntLit(callsID(mapUpdateName))
			fr.st.storeCell(callsKind, IntLit(0), id, Add(fr.st.loadCell(callsKind, IntLit(0), id), IntLit(1)))
		}
	case *ssa.Lookup:
		fr.lookup(x)
	case *ssa.Range:
		// iterator token: remember the collection
		c := fr.get(x.X)
		it := &Val{K: VTuple, T: x.Type(), El: []*Val{c, {K: VScalar, T: types.Typ[types.Int], S: IntLit(0)}}}
		fr.set(x, it)
	case *ssa.Next:
		fr.next(x)
	case *ssa.Return:
		var vs []*Val
		for _, r := range x.Results {
			vs = append(vs, canonVal(fr.get(r)))
		}
		fr.rets = append(fr.rets, retEdge{cond: fr.reach, vals: vs, st: fr.st.clone(), nf: len(fr.u.facts), ord: fr.u.v.siteOrdinal(fr.fn, x, "ret"), env: fr.snapshotEnv(), blk: fr.blk})
	case *ssa.Jump:
		fr.addEdge(fr.blk.Succs[0], fr.reach)
	case *ssa.If:
		c := fr.get(x.Cond).S
		fr.addEdge(fr.blk.Succs[0], And(fr.reach, c))
		fr.addEdge(fr.blk.Succs[1], And(fr.reach, Not(c)))
	case *ssa.Panic:
		fr.oblig(x, "panic.reach", False, "explicit panic reachable")
		fr.reach = False
	case *ssa.RunDefers:
	default:
		unsup("instruction %T (%s) in %s", in, in, fr.fn.Name())
	}
}

func (fr *Frame) addEdge(to *ssa.BasicBlock, cond *Term) {
	if cond == False {
		return
	}
	fr.pending[to] = append(fr.pending[to], &Edge{from: fr.blk, cond: cond, st: fr.st, env: fr.env})
}

// ---- allocation

func (fr *Frame) allocRaw() *Term {
	r := fr.st.Next
	fr.st.Next = Add(fr.st.Next, IntLit(1))
	return r
}

func (fr *Frame) alloc(t types.Type, ptrT types.Type) *Val {
	r := fr.allocRaw()
	seen := map[string]bool{}
	for _, k := range cellKinds(t) {
		if !seen[k] {
			seen[k] = true
			fr.st.setRow(k, r, ConstArr(ArrS(IntS, kindSort(k)), zeroTerm(k)))
		}
	}
	return &Val{K: VPtr, T: ptrT, Ref: r, Off: IntLit(0)}
}

func (fr *Frame) makeSlice(x *ssa.MakeSlice) {
	ln := fr.intOf(x.Len)
	cp := fr.intOf(x.Cap)
	fr.oblig(x, "make.neg", And(Le(IntLit(0), ln), Le(ln, cp)), "makeslice: len out of range")
	fr.oblig(x, "alloc.bound", Le(cp, IntBig(new(big.Int).Lsh(MaxLen, 2))), "makeslice: requested size is below 2^50 elements")
	fr.allocBound(x, cp, "makeslice")
	el := x.Type().Underlying().(*types.Slice).Elem()
	r := fr.allocRaw()
	seen := map[string]bool{}
	for _, k := range cellKinds(el) {
		if !seen[k] {
			seen[k] = true
			fr.st.setRow(k, r, ConstArr(ArrS(IntS, kindSort(k)), zeroTerm(k)))
		}
	}
	fr.set(x, &Val{K: VSlice, T: x.Type(), Ref: r, Off: IntLit(0), Len: ln, Cap: cp, Unique: true})
}

// intOf: the mathematical value of an integer-typed SSA value.
func (fr *Frame) intOf(v ssa.Value) *Term {
	val := fr.get(v)
	if val.S.S == IntS {
		return val.S
	}
	if isSignedT(v.Type()) {
		return BV2IntSigned(val.S)
	}
	return BV2Int(val.S)
}

func (fr *Frame) nilCheck(in ssa.Instruction, p *Val) {
	fr.oblig(in, "nil.deref", Not(Eq(p.Ref, IntLit(0))), "nil pointer dereference")
}

// checkWrite: frame obligation for a write of n cells at (ref, off).
func (fr *Frame) checkWrite(in ssa.Instruction, ref, off, n *Term) {
	for _, lm := range fr.loopMods {
		alts := []*Term{Ge(ref, lm.nextEntry)}
		for _, r := range lm.refs {
			alts = append(alts, Eq(ref, r))
		}
		fr.oblig(in, "loop.modifies", Or(alts...), fmt.Sprintf("write inside loop %d stays within its declared modifies set", lm.ord))
	}
	c := fr.u.contract
	if c == nil || !c.ModSet {
		return
	}
	ok := Ge(ref, fr.u.next0)
	if ok == True {
		return
	}
	// a write of zero cells writes nothing; a callee frame target reached through nil names no object
	alts := []*Term{ok, Le(n, IntLit(0)), Eq(ref, IntLit(0))}
	top := fr.topFrame()
	env := top.contractEnv(top.params, nil, top.entry, top.entry)
	for _, m := range c.Modifies {
		if m.Any != "" {
			all := len(fr.writeKinds) > 0
			for _, k := range fr.writeKinds {
				if !strings.HasSuffix(k, "@"+m.Any) {
					all = false
				}
			}
			if all {
				alts = append(alts, True)
			}
			continue
		}
		t, err := modTargetCovers(env, m, ref, off, n)
		if err != nil {
			fr.u.errs = append(fr.u.errs, fmt.Sprintf("%s: modifies %s: %v (contract.attach)", m.Where, m.Src, err))
			continue
		}
		alts = append(alts, t)
	}
	fr.oblig(in, "modifies", Or(alts...), "write outside the declared frame")
}

func (fr *Frame) topFrame() *Frame {
	return fr.u.top
}

// modTargetCovers: does modifies-target m cover cells [off, off+n) of object ref (in the entry state)?
func modTargetCovers(env *Env, m Clause, ref, off, n *Term) (t *Term, err error) {
	defer func() {
		if r := recover(); r != nil {
			if ee, ok := r.(evalErr); ok {
				err = fmt.Errorf("%s", string(ee))
				return
			}
			panic(r)
		}
	}()
	if s, ok := m.E.(*ESel); ok && (s.Name == "$all" || s.Name == "$obj") {
		base := env.eval(s.X)
		if base.K != CVal {
			efail("modifies target is not a reference")
		}
		v := base.V
		switch v.K {
		case VSlice:
			if s.Name == "$all" {
				sz := sizeOf(v.T.Underlying().(*types.Slice).Elem())
				return And(Eq(ref, v.Ref), Le(v.Off, off), Le(Add(off, n), Add(v.Off, Mul(IntLit(sz), v.Len)))), nil
			}
			// *s : the whole backing array of the slice (including spare capacity)
			return Eq(ref, v.Ref), nil
		case VPtr:
			pt := v.T.Underlying().(*types.Pointer).Elem()
			return And(Eq(ref, v.Ref), Le(v.Off, off), Le(Add(off, n), Add(v.Off, IntLit(sizeOf(pt))))), nil
		case VMap:
			return Eq(ref, v.S), nil
		}
		efail("unsupported modifies target")
	}
	// a field path p.f: the cells of that field
	if s, ok := m.E.(*ESel); ok {
		base := env.eval(s.X)
		if base.K == CVal && base.V.K == VPtr {
			if st, ok := base.V.T.Underlying().(*types.Pointer).Elem().Underlying().(*types.Struct); ok {
				for i := 0; i < st.NumFields(); i++ {
					if st.Field(i).Name() == s.Name {
						fo := Add(base.V.Off, IntLit(fieldOffset(st, i)))
						return And(Eq(ref, base.V.Ref), Le(fo, off), Le(Add(off, n), Add(fo, IntLit(sizeOf(st.Field(i).Type()))))), nil
					}
				}
			}
		}
	}
	efail("unsupported modifies target %s", m.Src)
	return nil, nil
}

// ---- arithmetic

func (fr *Frame) binop(x *ssa.BinOp) *Val {
	a, b := fr.get(x.X), fr.get(x.Y)
	t := x.X.Type()
	rt := x.Type()
	mk := func(s *Term) *Val { return &Val{K: VScalar, T: rt, S: s} }
	switch a.K {
	case VString:
		switch x.Op {
		case token.ADD:
			return fr.concat(a, b, rt)
		case token.EQL, token.NEQ:
			e := fr.stringEq(a, b)
			if x.Op == token.NEQ {
				e = Not(e)
			}
			return mk(e)
		default:
			fr.u.note("string ordering comparison abstracted")
			return mk(Fresh("strcmp", BoolS))
		}
	case VPtr, VIface, VMap, VFunc, VSlice, VTuple:
		var e *Term
		switch a.K {
		case VPtr:
			e = And(Eq(a.Ref, b.Ref), Eq(a.Off, b.Off))
		case VSlice:
			e = Eq(a.Ref, b.Ref) // only comparison with nil is legal
		case VIface:
			// comparison with nil or identical dynamic value; payload identity is an under-approximation of Go's deep ==,
			// adequate for error sentinels and nil checks
			if b.K == VPtr { // untyped nil
				e = Eq(a.S, IntLit(0))
			} else {
				e = And(Eq(a.S, b.S), Eq(a.Ref, b.Ref))
			}
		case VMap, VFunc:
			e = Eq(a.S, IntLit(0))
			if b.K == a.K {
				e = Eq(a.S, b.S)
			}
		case VTuple:
			fa, fb := flatten(canonVal(a), nil), flatten(canonVal(b), nil)
			var cs []*Term
			for i := range fa {
				cs = append(cs, Eq(fa[i], fb[i]))
			}
			e = And(cs...)
		}
		if x.Op == token.NEQ {
			e = Not(e)
		}
		return mk(e)
	}
	// scalars
	if a.S.S == BoolS {
		switch x.Op {
		case token.EQL:
			return mk(Eq(a.S, b.S))
		case token.NEQ:
			return mk(Not(Eq(a.S, b.S)))
		case token.AND, token.LAND:
			return mk(And(a.S, b.S))
		case token.OR, token.LOR:
			return mk(Or(a.S, b.S))
		}
		unsup("bool op %s", x.Op)
	}
	if a.S.S == FPS {
		return fr.fpBinop(x, a, b, rt)
	}
	signed := isSignedT(t)
	isShift := x.Op == token.SHL || x.Op == token.SHR
	// decide representation
	useBV := a.S.S.K == SBV || (!isShift && b.S.S.K == SBV)
	if isGoInt(t) && !fr.fi.BVInts[x] && !isShift {
		switch x.Op {
		case token.EQL, token.NEQ, token.LSS, token.LEQ, token.GTR, token.GEQ:
			// compare mathematically when either side is mathematical
			if a.S.S == IntS || b.S.S == IntS {
				useBV = false
			}
		default:
			useBV = false
		}
	}
	if isGoInt(rt) && fr.fi.BVInts[x] {
		useBV = true
	}
	if !useBV {
		ai, bi := coerceSort(a.S, IntS, signed), b.S
		if !isShift {
			bi = coerceSort(b.S, IntS, isSignedT(x.Y.Type()))
		}
		switch x.Op {
		case token.ADD, token.SUB, token.MUL:
			var r *Term
			switch x.Op {
			case token.ADD:
				r = Add(ai, bi)
			case token.SUB:
				r = Sub(ai, bi)
			default:
				r = Mul(ai, bi)
			}
			fr.overflow(x, r)
			return mk(r)
		case token.QUO, token.REM:
			fr.oblig(x, "div0", Not(Eq(bi, IntLit(0))), "integer divide by zero")
			q := truncDiv(ai, bi)
			if x.Op == token.QUO {
				return mk(q)
			}
			return mk(Sub(ai, Mul(bi, q)))
		case token.SHL, token.SHR:
			// mathematical int shifted by a constant
			if c, ok := x.Y.(*ssa.Const); ok {
				k, _ := new(big.Int).SetString(c.Value.ExactString(), 10)
				p := IntBig(new(big.Int).Lsh(big.NewInt(1), uint(k.Int64())))
				if x.Op == token.SHL {
					r := Mul(ai, p)
					fr.overflow(x, r)
					return mk(r)
				}
				return mk(IDiv(ai, p))
			}
			unsup("variable shift of mathematical int in %s", fr.fn.Name())
		case token.EQL:
			return mk(Eq(ai, bi))
		case token.NEQ:
			return mk(Not(Eq(ai, bi)))
		case token.LSS:
			return mk(Lt(ai, bi))
		case token.LEQ:
			return mk(Le(ai, bi))
		case token.GTR:
			return mk(Gt(ai, bi))
		case token.GEQ:
			return mk(Ge(ai, bi))
		}
		unsup("int op %s", x.Op)
	}
	w := bvWidth(t)
	av := coerceSort(a.S, BVS(w), signed)
	if isShift {
		if isSignedT(x.Y.Type()) {
			fr.oblig(x, "shift.neg", Le(IntLit(0), fr.intOf(x.Y)), "negative shift amount")
		}
		var cnt *Term
		if b.S.S == IntS {
			cnt = Ite(Ge(b.S, IntLit(int64(w))), BVLit(uint64(w), w), Int2BV(w, b.S))
		} else {
			cnt = shiftCount(b.S, w)
		}
		op := "bvshl"
		if x.Op == token.SHR {
			op = "bvlshr"
			if signed {
				op = "bvashr"
			}
		}
		return mk(BVOp(op, av, cnt))
	}
	bv := coerceSort(b.S, BVS(w), signed)
	switch x.Op {
	case token.ADD:
		return mk(BVOp("bvadd", av, bv))
	case token.SUB:
		return mk(BVOp("bvsub", av, bv))
	case token.MUL:
		return mk(BVOp("bvmul", av, bv))
	case token.QUO, token.REM:
		fr.oblig(x, "div0", Not(Eq(bv, BVLit(0, w))), "integer divide by zero")
		op := map[bool]map[token.Token]string{false: {token.QUO: "bvudiv", token.REM: "bvurem"}, true: {token.QUO: "bvsdiv", token.REM: "bvsrem"}}[signed][x.Op]
		return mk(BVOp(op, av, bv))
	case token.AND:
		return mk(BVOp("bvand", av, bv))
	case token.OR:
		return mk(BVOp("bvor", av, bv))
	case token.XOR:
		return mk(BVOp("bvxor", av, bv))
	case token.AND_NOT:
		return mk(BVOp("bvand", av, BVNot(bv)))
	case token.EQL:
		return mk(Eq(av, bv))
	case token.NEQ:
		return mk(Not(Eq(av, bv)))
	case token.LSS, token.LEQ, token.GTR, token.GEQ:
		m := map[token.Token]string{token.LSS: "lt", token.LEQ: "le", token.GTR: "gt", token.GEQ: "ge"}[x.Op]
		p := "bvu"
		if signed {
			p = "bvs"
		}
		return mk(BVCmp(p+m, av, bv))
	}
	unsup("bv op %s", x.Op)
	return nil
}

func truncDiv(a, b *Term) *Term {
	// Go division truncates toward zero; SMT div is Euclidean.
	if b.Op == "int" && b.V.Sign() > 0 {
		if a.Op == "int" {
			return IntBig(new(big.Int).Quo(a.V, b.V))
		}
		return Ite(Ge(a, IntLit(0)), IDiv(a, b), Neg(IDiv(Neg(a), b)))
	}
	return Ite(Ge(a, IntLit(0)),
		Ite(Gt(b, IntLit(0)), IDiv(a, b), Neg(IDiv(a, Neg(b)))),
		Ite(Gt(b, IntLit(0)), Neg(IDiv(Neg(a), b)), IDiv(Neg(a), Neg(b))))
}

func (fr *Frame) overflow(in ssa.Instruction, r *Term) {
	if fr.u.contract != nil && fr.u.contract.NoOverflow {
		fr.u.note("int arithmetic treated as mathematical in " + fr.u.name)
		return
	}
	fr.oblig(in, "overflow", And(Le(IntBig(minInt64), r), Le(r, IntBig(maxInt64))), "int arithmetic stays within 64 bits")
}

func (fr *Frame) unop(x *ssa.UnOp) {
	a := fr.get(x.X)
	switch x.Op {
	case token.MUL: // load
		fr.nilCheck(x, a)
		t := x.X.Type().Underlying().(*types.Pointer).Elem()
		v := fr.st.loadKinds(t, a.Kinds, a.Ref, a.Off)
		for _, f := range validFacts(v, fr.st.Next, nil) {
			fr.assume(f)
		}
		fr.set(x, fr.localVal(x, v))
	case token.NOT:
		fr.set(x, &Val{K: VScalar, T: x.Type(), S: Not(a.S)})
	case token.SUB:
		switch {
		case a.S.S == IntS:
			r := Neg(a.S)
			fr.overflow(x, r)
			fr.set(x, &Val{K: VScalar, T: x.Type(), S: r})
		case a.S.S == FPS:
			fr.set(x, &Val{K: VScalar, T: x.Type(), S: FPOp("fp.neg", FPS, a.S)})
		default:
			fr.set(x, &Val{K: VScalar, T: x.Type(), S: BVNeg(a.S)})
		}
	case token.XOR:
		s := a.S
		if s.S == IntS {
			s = Int2BV(64, s)
		}
		fr.set(x, &Val{K: VScalar, T: x.Type(), S: BVNot(s)})
	default:
		unsup("unop %s", x.Op)
	}
}

func (fr *Frame) convert(in ssa.Instruction, a *Val, from, to types.Type) *Val {
	fu, tu := from.Underlying(), to.Underlying()
	// string <-> []byte, string(int)
	if isStringT(to) {
		if s, ok := fu.(*types.Slice); ok {
			_ = s
			return fr.bytesToString(a, to)
		}
		if isIntT(from) {
			return fr.runeToString(in, a, from, to)
		}
		if isStringT(from) {
			v := *a
			v.T = to
			return &v
		}
	}
	if s, ok := tu.(*types.Slice); ok && isStringT(from) {
		if scalarKind(s.Elem()) == "bv8" {
			return fr.stringToBytes(a, to)
		}
		unsup("conversion string -> %v", to)
	}
	fb, fok := fu.(*types.Basic)
	tb, tok := tu.(*types.Basic)
	if !fok || !tok {
		// pointer conversions etc.
		v := *a
		v.T = to
		return &v
	}
	ff, tf := fb.Info()&types.IsFloat != 0, tb.Info()&types.IsFloat != 0
	switch {
	case ff && tf:
		v := *a
		v.T = to
		return &v
	case ff && !tf:
		// float -> int: truncation toward zero; out of range is implementation-defined in Go
		w := bvWidth(to)
		var r *Term
		if isSignedT(to) {
			r = FPOp(fmt.Sprintf("(_ fp.to_sbv %d) RTZ", w), BVS(w), a.S)
		} else {
			r = FPOp(fmt.Sprintf("(_ fp.to_ubv %d) RTZ", w), BVS(w), a.S)
		}
		if isGoInt(to) {
			r = BV2IntSigned(r)
		}
		return &Val{K: VScalar, T: to, S: r}
	case !ff && tf:
		var r *Term
		src := a.S
		if src.S == IntS {
			src = Int2BV(64, src)
		}
		if isSignedT(from) {
			r = FPOp("(_ to_fp 11 53) RNE", FPS, src)
		} else {
			r = FPOp("(_ to_fp_unsigned 11 53) RNE", FPS, src)
		}
		return &Val{K: VScalar, T: to, S: r}
	}
	// integer -> integer
	wantBV := !isGoInt(to)
	if v, ok := in.(ssa.Value); ok && isGoInt(to) && fr.fi.BVInts[v] {
		wantBV = true
	}
	src := a.S
	if !wantBV {
		// to mathematical int
		if src.S == IntS {
			return &Val{K: VScalar, T: to, S: src}
		}
		if isSignedT(from) {
			return &Val{K: VScalar, T: to, S: BV2IntSigned(src)}
		}
		if src.S.W == 64 {
			// uint64 -> int wraps
			return &Val{K: VScalar, T: to, S: BV2IntSigned(src)}
		}
		return &Val{K: VScalar, T: to, S: BV2Int(src)}
	}
	w := bvWidth(to)
	if src.S == IntS {
		return &Val{K: VScalar, T: to, S: Int2BV(w, src)}
	}
	switch {
	case src.S.W == w:
		return &Val{K: VScalar, T: to, S: src}
	case src.S.W > w:
		return &Val{K: VScalar, T: to, S: Extract(w-1, 0, src)}
	default:
		if isSignedT(from) {
			return &Val{K: VScalar, T: to, S: SignExt(w-src.S.W, src)}
		}
		return &Val{K: VScalar, T: to, S: ZeroExt(w-src.S.W, src)}
	}
}

func (fr *Frame) fpBinop(x *ssa.BinOp, a, b *Val, rt types.Type) *Val {
	mk := func(s *Term) *Val { return &Val{K: VScalar, T: rt, S: s} }
	switch x.Op {
	case token.ADD:
		return mk(FPOp("fp.add RNE", FPS, a.S, b.S))
	case token.SUB:
		return mk(FPOp("fp.sub RNE", FPS, a.S, b.S))
	case token.MUL:
		return mk(FPOp("fp.mul RNE", FPS, a.S, b.S))
	case token.QUO:
		return mk(FPOp("fp.div RNE", FPS, a.S, b.S))
	case token.EQL:
		return mk(FPOp("fp.eq", BoolS, a.S, b.S))
	case token.NEQ:
		return mk(Not(FPOp("fp.eq", BoolS, a.S, b.S)))
	case token.LSS:
		return mk(FPOp("fp.lt", BoolS, a.S, b.S))
	case token.LEQ:
		return mk(FPOp("fp.leq", BoolS, a.S, b.S))
	case token.GTR:
		return mk(FPOp("fp.gt", BoolS, a.S, b.S))
	case token.GEQ:
		return mk(FPOp("fp.geq", BoolS, a.S, b.S))
	}
	unsup("float op %s", x.Op)
	return nil
}

// ---- indexing and slicing

func (fr *Frame) indexAddr(x *ssa.IndexAddr) {
	base := fr.get(x.X)
	idx := fr.intOf(x.Index)
	switch t := x.X.Type().Underlying().(type) {
	case *types.Slice:
		fr.oblig(x, "index", And(Le(IntLit(0), idx), Lt(idx, base.Len)), "index out of range")
		fr.set(x, &Val{K: VPtr, T: x.Type(), Ref: base.Ref, Off: Add(base.Off, Mul(IntLit(sizeOf(t.Elem())), idx))})
	case *types.Pointer:
		ar := t.Elem().Underlying().(*types.Array)
		fr.nilCheck(x, base)
		fr.oblig(x, "index", And(Le(IntLit(0), idx), Lt(idx, IntLit(ar.Len()))), "index out of range")
		var eks []string
		if base.Kinds != nil {
			eks = base.Kinds[:sizeOf(ar.Elem())] // all elements of an array field share their kinds
		}
		fr.set(x, &Val{K: VPtr, T: x.Type(), Ref: base.Ref, Off: Add(base.Off, Mul(IntLit(sizeOf(ar.Elem())), idx)), Kinds: eks})
	default:
		unsup("IndexAddr on %v", x.X.Type())
	}
}

func (fr *Frame) indexVal(x *ssa.Index) {
	base := fr.get(x.X)
	idx := fr.intOf(x.Index)
	switch base.K {
	case VString:
		fr.oblig(x, "index", And(Le(IntLit(0), idx), Lt(idx, base.Len)), "string index out of range")
		fr.set(x, &Val{K: VScalar, T: x.Type(), S: fr.strByte(base, idx)})
	case VTuple:
		n := int64(len(base.El))
		fr.oblig(x, "index", And(Le(IntLit(0), idx), Lt(idx, IntLit(n))), "index out of range")
		if k, ok := idx.Int64(); ok && k >= 0 && k < n {
			fr.set(x, base.El[k])
			return
		}
		r := base.El[n-1]
		for j := n - 2; j >= 0; j-- {
			r = mergeVals(Eq(idx, IntLit(j)), base.El[j], r)
		}
		fr.set(x, r)
	default:
		unsup("Index on %v", x.X.Type())
	}
}

// strByte reads byte i of a string, folding constants.
func (fr *Frame) strByte(s *Val, i *Term) *Term {
	if id, ok := s.Ref.Int64(); ok && id < 0 {
		for str, sid := range fr.u.v.strConsts {
			if sid == id {
				return Select(strConstRow(str), Add(s.Off, i))
			}
		}
	}
	return fr.st.loadCell("str8", s.Ref, Add(s.Off, i))
}

func (fr *Frame) slice(x *ssa.Slice) {
	base := fr.get(x.X)
	var lo, hi, max *Term
	if x.Low != nil {
		lo = fr.intOf(x.Low)
	} else {
		lo = IntLit(0)
	}
	if x.High != nil {
		hi = fr.intOf(x.High)
	}
	if x.Max != nil {
		max = fr.intOf(x.Max)
	}
	switch t := x.X.Type().Underlying().(type) {
	case *types.Slice:
		if hi == nil {
			hi = base.Len
		}
		cp := base.Cap
		if max != nil {
			fr.oblig(x, "slice.bounds", And(Le(IntLit(0), lo), Le(lo, hi), Le(hi, max), Le(max, base.Cap)), "slice bounds out of range")
			cp = max
		} else {
			fr.oblig(x, "slice.bounds", And(Le(IntLit(0), lo), Le(lo, hi), Le(hi, base.Cap)), "slice bounds out of range")
		}
		sz := IntLit(sizeOf(t.Elem()))
		fr.set(x, &Val{K: VSlice, T: x.Type(), Ref: base.Ref, Off: Add(base.Off, Mul(sz, lo)), Len: Sub(hi, lo), Cap: Sub(cp, lo)})
	case *types.Basic: // string
		if hi == nil {
			hi = base.Len
		}
		fr.oblig(x, "slice.bounds", And(Le(IntLit(0), lo), Le(lo, hi), Le(hi, base.Len)), "slice bounds out of range")
		fr.set(x, &Val{K: VString, T: x.Type(), Ref: base.Ref, Off: Add(base.Off, lo), Len: Sub(hi, lo)})
	case *types.Pointer:
		ar := t.Elem().Underlying().(*types.Array)
		fr.nilCheck(x, base)
		n := IntLit(ar.Len())
		if hi == nil {
			hi = n
		}
		cp := n
		if max != nil {
			cp = max
			fr.oblig(x, "slice.bounds", And(Le(IntLit(0), lo), Le(lo, hi), Le(hi, max), Le(max, n)), "slice bounds out of range")
		} else {
			fr.oblig(x, "slice.bounds", And(Le(IntLit(0), lo), Le(lo, hi), Le(hi, n)), "slice bounds out of range")
		}
		sz := IntLit(sizeOf(ar.Elem()))
		uq := false
		if a, ok := x.X.(*ssa.Alloc); ok && a.Heap && singleUse(a) {
			uq = true // make([]T, const): nothing else can reference the array
		}
		fr.set(x, &Val{K: VSlice, T: x.Type(), Ref: base.Ref, Off: Add(base.Off, Mul(sz, lo)), Len: Sub(hi, lo), Cap: Sub(cp, lo), Unique: uq})
	default:
		unsup("Slice on %v", x.X.Type())
	}
}

// ---- strings

// copyRange: dst row with cells [dOff, dOff+n) replaced by src[sOff...].
func (fr *Frame) copyRange(dst *Term, dOff *Term, src *Term, sOff *Term, n *Term) *Term {
	if k, ok := n.Int64(); ok && k <= 96 {
		r := dst
		for i := int64(0); i < k; i++ {
			r = Store(r, Add(dOff, IntLit(i)), Select(src, Add(sOff, IntLit(i))))
		}
		return r
	}
	if mx, ok := iteLitMax(n); ok && mx <= 96 {
		// the length is one of finitely many small literals: guarded stores, no quantifier
		r := dst
		for i := int64(0); i < mx; i++ {
			at := Add(dOff, IntLit(i))
			r = Store(r, at, Ite(Lt(IntLit(i), n), Select(src, Add(sOff, IntLit(i))), Select(dst, at)))
		}
		return r
	}
	if B := fr.u.unrollAll; B > 0 {
		// bounded mode: quantifier-free expansion; longer copies are not explored
		fr.u.facts = append(fr.u.facts, Implies(fr.reach, Le(n, IntLit(int64(B)))))
		r := dst
		for i := int64(0); i < int64(B); i++ {
			at := Add(dOff, IntLit(i))
			r = Store(r, at, Ite(Lt(IntLit(i), n), Select(src, Add(sOff, IntLit(i))), Select(dst, at)))
		}
		return r
	}
	r := Fresh("row", dst.S)
	j := BoundVar("k", IntS)
	in := And(Le(dOff, j), Lt(j, Add(dOff, n)))
	fr.assume(Forall([]*Term{j}, Eq(Select(r, j), Ite(in, Select(src, Add(sOff, Sub(j, dOff))), Select(dst, j)))))
	return r
}

func (fr *Frame) strRow(s *Val) *Term {
	if id, ok := s.Ref.Int64(); ok && id < 0 {
		for str, sid := range fr.u.v.strConsts {
			if sid == id {
				return strConstRow(str)
			}
		}
	}
	return fr.st.row("str8", s.Ref)
}

func (fr *Frame) concat(a, b *Val, t types.Type) *Val {
	r := fr.allocRaw()
	zero := ConstArr(ArrS(IntS, BVS(8)), BVLit(0, 8))
	row := fr.copyRange(zero, IntLit(0), fr.strRow(a), a.Off, a.Len)
	row = fr.copyRange(row, a.Len, fr.strRow(b), b.Off, b.Len)
	fr.st.setRow("str8", r, row)
	ln := Add(a.Len, b.Len)
	fr.assume(Le(ln, IntBig(MaxLen))) // A-mem
	return &Val{K: VString, T: t, Ref: r, Off: IntLit(0), Len: ln}
}

func (fr *Frame) stringEq(a, b *Val) *Term {
	env := &Env{st: fr.st}
	ra, rb := fr.strRow(a), fr.strRow(b)
	if _, lit := a.Len.Int64(); lit {
		return env.seqEqual(ra, a.Off, a.Len, rb, b.Off, b.Len)
	}
	if _, lit := b.Len.Int64(); lit {
		return env.seqEqual(rb, b.Off, b.Len, ra, a.Off, a.Len)
	}
	// symbolic lengths: name the outcome by a fresh Boolean so that no quantifier
	// ends up inside path conditions; a fresh witness index serves the negative case
	eq := Fresh("streq", BoolS)
	w := Fresh("strdiff", IntS)
	all := env.seqEqual(ra, a.Off, a.Len, rb, b.Off, b.Len)
	diff := Or(Not(Eq(a.Len, b.Len)), And(Le(IntLit(0), w), Lt(w, a.Len), Not(Eq(Select(ra, Add(a.Off, w)), Select(rb, Add(b.Off, w))))))
	fr.u.facts = append(fr.u.facts, Implies(eq, all), Implies(Not(eq), diff))
	return eq
}

func (fr *Frame) bytesToString(a *Val, t types.Type) *Val {
	r := fr.allocRaw()
	zero := ConstArr(ArrS(IntS, BVS(8)), BVLit(0, 8))
	fr.st.setRow("str8", r, fr.copyRange(zero, IntLit(0), fr.st.row("bv8", a.Ref), a.Off, a.Len))
	return &Val{K: VString, T: t, Ref: r, Off: IntLit(0), Len: a.Len}
}

func (fr *Frame) stringToBytes(a *Val, t types.Type) *Val {
	r := fr.allocRaw()
	zero := ConstArr(ArrS(IntS, BVS(8)), BVLit(0, 8))
	fr.st.setRow("bv8", r, fr.copyRange(zero, IntLit(0), fr.strRow(a), a.Off, a.Len))
	cp := Fresh("cap", IntS)
	fr.assume(And(Le(a.Len, cp), Le(cp, IntBig(MaxLen))))
	return &Val{K: VSlice, T: t, Ref: r, Off: IntLit(0), Len: a.Len, Cap: cp}
}

func (fr *Frame) runeToString(in ssa.Instruction, a *Val, from, to types.Type) *Val {
	// string(rune): UTF-8 encoding. Exact for code points < 0x80 (one byte);
	// otherwise 2–4 unspecified bytes.
	v := a.S
	var iv *Term
	if v.S == IntS {
		iv = v
	} else if isSignedT(from) {
		iv = BV2IntSigned(v)
	} else {
		iv = BV2Int(v)
	}
	if v.S.K == SBV && v.S.W == 8 {
		// string(byte): exact UTF-8 of U+0000..U+00FF
		r := fr.allocRaw()
		hi := BVCmp("bvuge", v, BVLit(128, 8))
		b0 := Ite(hi, BVOp("bvor", BVLit(0xC0, 8), BVOp("bvlshr", v, BVLit(6, 8))), v)
		b1 := BVOp("bvor", BVLit(0x80, 8), BVOp("bvand", v, BVLit(0x3F, 8)))
		row := Store(Store(ConstArr(ArrS(IntS, BVS(8)), BVLit(0, 8)), IntLit(0), b0), IntLit(1), b1)
		fr.st.setRow("str8", r, row)
		return &Val{K: VString, T: to, Ref: r, Off: IntLit(0), Len: Ite(hi, IntLit(2), IntLit(1))}
	}
	r := fr.allocRaw()
	ascii := And(Le(IntLit(0), iv), Lt(iv, IntLit(128)))
	row := Fresh("utf8", ArrS(IntS, BVS(8)))
	fr.assume(Implies(ascii, Eq(Select(row, IntLit(0)), Int2BV(8, iv))))
	ln := Fresh("utf8len", IntS)
	fr.assume(And(Implies(ascii, Eq(ln, IntLit(1))), Le(IntLit(1), ln), Le(ln, IntLit(4))))
	fr.st.setRow("str8", r, row)
	return &Val{K: VString, T: to, Ref: r, Off: IntLit(0), Len: ln}
}

// ---- interfaces

func (fr *Frame) typeAssert(x *ssa.TypeAssert) {
	a := fr.get(x.X)
	var ok *Term
	var res *Val
	if _, isIface := x.AssertedType.Underlying().(*types.Interface); isIface {
		// interface-to-interface: succeeds iff non-nil and the dynamic type implements it
		ok = Not(Eq(a.S, IntLit(0)))
		it := x.AssertedType.Underlying().(*types.Interface)
		if it.NumMethods() > 0 {
			impl := implTerm(x.AssertedType, a.S)
			if impl == nil {
				impl = Fresh("implements", BoolS)
			}
			ok = And(ok, impl)
			fr.u.note("interface-to-interface assertion: the implementation relation is an uninterpreted predicate of the dynamic type (known for values that statically have the interface type)")
		}
		v := *a
		v.T = x.AssertedType
		res = &v
	} else {
		ok = Eq(a.S, IntLit(fr.u.v.typeTag(x.AssertedType)))
		res = fr.st.load(x.AssertedType, a.Ref, IntLit(0))
		for _, f := range validFacts(res, fr.st.Next, nil) {
			fr.u.assume(And(fr.reach, ok), f)
		}
	}
	if x.CommaOk {
		zero := zeroVal(x.AssertedType)
		r := mergeVals(ok, res, zero)
		fr.set(x, &Val{K: VTuple, T: x.Type(), El: []*Val{r, {K: VScalar, T: types.Typ[types.Bool], S: ok}}})
		return
	}
	fr.oblig(x, "typeassert", ok, fmt.Sprintf("interface conversion to %s", types.TypeString(x.AssertedType, nil)))
	fr.set(x, res)
}

// ---- maps, range

func (fr *Frame) lookup(x *ssa.Lookup) {
	c := fr.get(x.X)
	if c.K == VString {
		idx := fr.intOf(x.Index)
		fr.oblig(x, "index", And(Le(IntLit(0), idx), Lt(idx, c.Len)), "string index out of range")
		fr.set(x, &Val{K: VScalar, T: x.Type(), S: fr.strByte(c, idx)})
		return
	}
	mt := x.X.Type().Underlying().(*types.Map)
	v := freshVal(mt.Elem(), "mapval")
	for _, f := range validFacts(v, fr.st.Next, nil) {
		fr.assume(f)
	}
	fr.u.note("map contents are abstracted (lookups return unconstrained values)")
	ok := Fresh("mapok", BoolS)
	fr.assume(Implies(Eq(c.S, IntLit(0)), Not(ok)))
	hasInv := fr.mapInvAssume(x.X.Type(), v, ok)
	if x.CommaOk {
		r := mergeVals(ok, v, zeroVal(mt.Elem()))
		fr.set(x, &Val{K: VTuple, T: x.Type(), El: []*Val{r, {K: VScalar, T: types.Typ[types.Bool], S: ok}}})
		return
	}
	if hasInv {
		// a missing key yields the zero value, about which the invariant says nothing
		v = mergeVals(ok, v, zeroVal(mt.Elem()))
	}
	fr.set(x, v)
}

func (fr *Frame) next(x *ssa.Next) {
	it := fr.get(x.Iter)
	tup := x.Type().(*types.Tuple)
	ok := Fresh("iterok", BoolS)
	var k, v *Val
	if x.IsString {
		k = &Val{K: VScalar, T: tup.At(1).Type(), S: Fresh("iterk", IntS)}
		fr.assume(And(Le(IntLit(0), k.S), Lt(k.S, it.El[0].Len)))
		v = freshVal(tup.At(2).Type(), "iterv")
	} else {
		coll := it.El[0]
		fr.assume(Implies(Eq(coll.S, IntLit(0)), Not(ok)))
		// an unused key or value has the invalid type in go/ssa: represent it by a dummy
		fv := func(t types.Type, nm string) *Val {
			if b, isB := t.(*types.Basic); isB && b.Kind() == types.Invalid {
				return &Val{K: VScalar, T: types.Typ[types.Bool], S: False}
			}
			return freshVal(t, nm)
		}
		k = fv(tup.At(1).Type(), "iterk")
		v = fv(tup.At(2).Type(), "iterv")
		if _, isMap := coll.T.Underlying().(*types.Map); isMap {
			fr.mapInvAssume(coll.T, v, ok)
		}
	}
	for _, val := range []*Val{k, v} {
		for _, f := range validFacts(val, fr.st.Next, nil) {
			fr.assume(f)
		}
	}
	fr.u.note("map iteration order and contents abstracted")
	fr.set(x, &Val{K: VTuple, T: x.Type(), El: []*Val{{K: VScalar, T: types.Typ[types.Bool], S: ok}, k, v}})
}

func (fr *Frame) closureTarget(v ssa.Value) *closureInfo {
	if val, ok := fr.env[v]; ok && val.K == VFunc {
		return val.Fn
	}
	if f, ok := v.(*ssa.Function); ok {
		return &closureInfo{fn: f}
	}
	return nil
}

func nameOfCall(c *ssa.CallCommon) string {
	if c.IsInvoke() {
		return fmt.Sprintf("%s.%s", types.TypeString(c.Value.Type(), nil), c.Method.Name())
	}
	return strings.TrimSpace(c.Value.Name())
}

// guardCheck: lock discipline — a guarded field may only be addressed while its mutex is held.
func (fr *Frame) guardCheck(x *ssa.FieldAddr, p *Val, st *types.Struct) {
	gs := fr.u.v.lib.Guards
	if len(gs) == 0 {
		return
	}
	nt, ok := x.X.Type().Underlying().(*types.Pointer).Elem().(*types.Named)
	if !ok || nt.Obj().Pkg() == nil {
		return
	}
	tn := shortPkg(nt.Obj().Pkg().Path()) + "." + nt.Obj().Name()
	for _, g := range gs {
		if g.Type != tn || st.Field(x.Field).Name() != g.Field {
			continue
		}
		for i := 0; i < st.NumFields(); i++ {
			if st.Field(i).Name() == g.Mutex {
				nt2 := x.X.Type().Underlying().(*types.Pointer).Elem()
				held := fr.st.loadCell(fieldKinds(nt2, st, i)[0], p.Ref, Add(p.Off, IntLit(fieldOffset(st, i))))
				// an object allocated by this very call is not shared yet
				fr.oblig(x, "lock.held", Or(held, Ge(p.Ref, fr.u.next0)), fmt.Sprintf("%s.%s accessed while %s is held", tn, g.Field, g.Mutex))
			}
		}
	}
}

// modTargetRef: the object a modifies-target lives in.
func modTargetRef(env *Env, m Clause) (r *Term, err error) {
	defer func() {
		if rc := recover(); rc != nil {
			if ee, ok := rc.(evalErr); ok {
				err = fmt.Errorf("%s", string(ee))
				return
			}
			panic(rc)
		}
	}()
	e := m.E
	if s, ok := e.(*ESel); ok && (s.Name == "$all" || s.Name == "$obj") {
		base := env.eval(s.X)
		if base.K == CVal && (base.V.K == VSlice || base.V.K == VPtr) {
			return base.V.Ref, nil
		}
		if base.K == CVal && base.V.K == VMap {
			return base.V.S, nil
		}
	}
	if s, ok := e.(*ESel); ok {
		base := env.eval(s.X)
		if base.K == CVal && base.V.K == VPtr {
			return base.V.Ref, nil
		}
	}
	efail("unsupported modifies target %s", m.Src)
	return nil, nil
}

// allocBound: with an `alloc` clause, every non-constant allocation size is bounded by it (memory proportional to the input).
func (fr *Frame) allocBound(in ssa.Instruction, size *Term, what string) {
	top := fr.u.top
	if top == nil || top.contract == nil || top.contract.Alloc == nil {
		return
	}
	if _, lit := size.Int64(); lit {
		return
	}
	env := top.contractEnv(top.params, nil, top.entry, top.entry)
	cv, err := env.safeEval(top.contract.Alloc.E)
	if err != nil {
		fr.u.errs = append(fr.u.errs, fmt.Sprintf("%s: alloc %s: %v (contract.attach)", top.contract.Alloc.Where, top.contract.Alloc.Src, err))
		return
	}
	fr.oblig(in, "alloc.limit", Le(size, cv.asInt()), what+": size bounded by the declared measure "+top.contract.Alloc.Src)
}

// iteLitMax: n is a tree of ite over integer literals; returns the largest leaf.
func iteLitMax(n *Term) (int64, bool) {
	if v, ok := n.Int64(); ok {
		return v, true
	}
	if n.Op == "ite" {
		a, ok1 := iteLitMax(n.Args[1])
		b, ok2 := iteLitMax(n.Args[2])
		if ok1 && ok2 {
			if a > b {
				return a, true
			}
			return b, true
		}
	}
	return 0, false
}

func (fr *Frame) snapshotEnv() map[ssa.Value]*Val {
	m := make(map[ssa.Value]*Val, len(fr.env))
	for k, v := range fr.env {
		m[k] = v
	}
	return m
}

// ---- map value invariants (mapinv clauses)

func mapTypeString(t types.Type) string {
	return types.TypeString(t, func(p *types.Package) string { return p.Name() })
}

func (fr *Frame) mapInvs(t types.Type) []MapInv {
	c := fr.contract
	if c == nil && fr.u != nil {
		c = fr.u.contract
	}
	if c == nil {
		return nil
	}
	ts := mapTypeString(t)
	var out []MapInv
	for _, m := range c.MapInvs {
		if m.Type == ts {
			out = append(out, m)
		}
	}
	return out
}

func (fr *Frame) mapInvTerm(m MapInv, v *Val) (*Term, error) {
	env := fr.contractEnv(fr.params, nil, fr.st, fr.entry)
	env.vars["$v"] = cvOfVal(canonVal(v))
	return env.evalBool(m.C.E)
}

// mapInvAssume: the invariant holds for a value read from the map (when present).
func (fr *Frame) mapInvAssume(t types.Type, v *Val, present *Term) bool {
	ms := fr.mapInvs(t)
	for _, m := range ms {
		tm, err := fr.mapInvTerm(m, v)
		if err != nil {
			fr.u.errs = append(fr.u.errs, fmt.Sprintf("%s: mapinv %s: %v (contract.attach)", m.C.Where, m.C.Src, err))
			continue
		}
		fr.assume(Implies(present, tm))
		fr.u.note("mapinv " + m.Type + ": assumed at lookups; relies on every assignment to such maps being checked (see evidence) and on the objects reachable from stored values not being modified after insertion")
	}
	return len(ms) > 0
}

// mapInvCheck: the invariant must hold for a value being stored.
func (fr *Frame) mapInvCheck(in ssa.Instruction, t types.Type, v *Val) {
	for _, m := range fr.mapInvs(t) {
		tm, err := fr.mapInvTerm(m, v)
		if err != nil {
			fr.u.errs = append(fr.u.errs, fmt.Sprintf("%s: mapinv %s: %v (contract.attach)", m.C.Where, m.C.Src, err))
			continue
		}
		fr.oblig(in, "mapinv", tm, "map value invariant: "+m.C.Src)
	}
}
